"""C19 — structured operators are never densified (DESIGN.md section 4, C19).

1. products: no materialiser in the matrix-free product methods of the structured kinds;
2. structural rules: for every required (function, kind) pair, every admitted algorithm
   class and every arity, the selected rule must not materialise its own operator argument
   nor forward that same object to a selection that does (fixpoint over dispatch edges);
3. default-arity consistency of plain @dispatch functions.
"""
import ast
import itertools

from sa import dataflow as df
from sa.index import FuncInfo
from sa.oracle_domains import DOMAINS
from sa.oracle_structural import CONDITIONAL, MATERIALISERS, PRODUCT_KINDS, REQUIRED, WRAPPERS
from sa.resolver import ANNOTS, Arg, Resolver, admitted_algorithms, intrinsic_annotations

DENSE_METHODS = {"to_dense"}


class Densify:
    """may the function materialise (to_dense / densify / eye-product) the operator object
    bound to parameter `pname`, when that object has kind `kind`?  Least fixpoint over calls."""
    def __init__(self, idx, res, intr):
        self.idx, self.res, self.intr = idx, res, intr
        self.memo = {}
        self.in_progress = set()
        self.algs = {c.name for c in idx.algorithm_classes()}
        self.ops = {c.name for c in idx.operator_classes()}
        self.edges = 0

    # ---- classes of a non-operator argument expression
    def expr_classes(self, expr, fi, env, depth=0):
        if depth > 6:
            return None
        if isinstance(expr, ast.Constant):
            return {type(expr.value).__name__}
        if isinstance(expr, ast.UnaryOp) and isinstance(expr.operand, ast.Constant):
            return {type(expr.operand.value).__name__}
        if isinstance(expr, ast.Lambda):
            return {"function"}
        if isinstance(expr, ast.Call):
            r = self.idx.resolve_expr(fi.module, expr.func, fi)
            if r is not None and r.kind == "class":
                return {r.val.name}
            return None
        if isinstance(expr, ast.Name):
            asg = df.assignments(fi.node).get(expr.id, [])
            vals = [v for v, path, st in asg if path is None and not isinstance(v, ast.AugAssign)]
            if vals:
                out = set()
                for v in vals:
                    if isinstance(v, ast.Name) and v.id == expr.id:
                        continue
                    c = self.expr_classes(v, fi, env, depth + 1) if not (isinstance(v, ast.Name) and v.id in env) else {env[v.id]}
                    if c is None:
                        return None
                    out |= c
                return out or None
            if expr.id in env:
                return {env[expr.id]}
            d = df.param_defaults(fi.node).get(expr.id)
            if d is not None:
                return self.expr_classes(d, fi, {}, depth + 1)
            r = self.idx.resolve_name(fi.module, expr.id, fi)
            if r is not None and r.kind == "funcs":
                return {"function"}
            return None
        return None

    def representative(self, fname, pos):
        rules = self.res.rules_of(fname)
        atoms = set()
        for r in rules:
            if pos < len(r.params):
                atoms |= set(r.params[pos][1])
        if atoms & self.algs:
            return set(admitted_algorithms(self.idx, self.res, fname, pos)) or None
        for a, rep in (("int", "int"), ("str", "str"), ("Callable", "function"), ("Number", "float")):
            if a in atoms:
                return {rep}
        return None

    # ---- the fixpoint
    def densifies(self, fi, pname, kind, env):
        key = (id(fi.node), pname, kind, tuple(sorted(env.items())))
        if key in self.memo:
            return self.memo[key]
        if key in self.in_progress:
            return None
        self.in_progress.add(key)
        try:
            r = self._densifies(fi, pname, kind, env)
        finally:
            self.in_progress.discard(key)
        self.memo[key] = r
        return r

    def _aliases(self, fi, pname):
        al = {pname}
        asg = df.assignments(fi.node, into_nested=True)
        changed = True
        while changed:
            changed = False
            for name, vals in asg.items():
                if name in al:
                    continue
                if any(path is None and isinstance(v, ast.Name) and v.id in al for v, path, st in vals):
                    al.add(name)
                    changed = True
        return al

    def _densifies(self, fi, pname, kind, env):
        """-> None or a path [(description, loc), ...] ending at the materialiser"""
        al = self._aliases(fi, pname)
        m = fi.module
        here = f"{fi.short}"
        for n in df.body_nodes(fi.node, into_nested=True):
            # A @ eye(...) / eye(...) @ A
            if isinstance(n, ast.BinOp) and isinstance(n.op, ast.MatMult):
                for a, b in ((n.left, n.right), (n.right, n.left)):
                    if isinstance(a, ast.Name) and a.id in al and isinstance(b, ast.Call) and df.is_xnp_call(b) == "eye":
                        return [(f"{here}: `{ast.unparse(n)}` multiplies the operator with a dense identity", self.idx.loc(m, n))]
            if not isinstance(n, ast.Call):
                continue
            f = n.func
            if isinstance(f, ast.Attribute) and isinstance(f.value, ast.Name) and f.value.id in al:
                if f.attr in DENSE_METHODS:
                    return [(f"{here}: `{ast.unparse(n)}` materialises the {kind} itself", self.idx.loc(m, n))]
                # method of the kind's class (e.g. self.helper()) -- follow
                if self.idx.has_cls(kind):
                    meth = self.idx.find_method(self.idx.cls(kind), f.attr)
                    if meth is not None and f.attr not in ("isa", "flatten", "to"):
                        sub = self.densifies(meth, meth.params[0] if meth.params else "self", kind, {})
                        if sub:
                            return [(f"{here}: `{ast.unparse(n)}`", self.idx.loc(m, n))] + sub
                continue
            argexprs = list(n.args) + [k.value for k in n.keywords]
            if not any(isinstance(a, ast.Name) and a.id in al for a in argexprs):
                continue
            self.edges += 1
            sub = self._follow_call(n, fi, al, kind, env)
            if sub:
                return [(f"{here}: `{ast.unparse(n)[:90]}`", self.idx.loc(m, n))] + sub
        return None

    def _follow_call(self, call, fi, al, kind, env):
        idx = self.idx
        f = call.func
        # alg(A, ...) with alg of known class
        if isinstance(f, ast.Name):
            cls_set = None
            if f.id in env and env[f.id] in self.algs:
                cls_set = {env[f.id]}
            if cls_set:
                for cn in cls_set:
                    meth = idx.find_method(idx.cls(cn), "__call__")
                    if meth is not None:
                        b = df.bind_call(call, meth.params, skip_first=True)
                        for p, e in b.items():
                            if isinstance(e, ast.Name) and e.id in al:
                                sub = self.densifies(meth, p, kind, {"self": cn})
                                if sub:
                                    return sub
                return None
        r = idx.resolve_expr(fi.module, f, fi)
        if r is None:
            return None
        if r.kind == "class":
            init = idx.find_method(r.val, "__init__")
            if init is None:
                return None
            b = df.bind_call(call, init.params, skip_first=True)
            return self._into(init, b, fi, al, kind, env)
        if r.kind != "funcs":
            return None
        fis = r.val
        fname = fis[-1].name
        is_dispatch = any(getattr(x, "rule", None) is not None for x in fis) and fname in idx.rules
        if not is_dispatch:
            callee = fis[-1]
            b = df.bind_call(call, callee.params, skip_first=callee.cls is not None and not isinstance(f, ast.Name) and False)
            return self._into(callee, b, fi, al, kind, env)
        return self._dispatch_call(fname, call, fi, al, kind, env)

    def _into(self, callee, bound, fi, al, kind, env):
        env2 = {}
        targets = []
        for p, e in bound.items():
            if p.startswith("*"):
                continue
            if isinstance(e, ast.Name) and e.id in al:
                targets.append(p)
            else:
                c = self.expr_classes(e, fi, env)
                if c and len(c) == 1:
                    env2[p] = next(iter(c))
        for p in targets:
            sub = self.densifies(callee, p, kind, env2)
            if sub:
                return sub
        return None

    def _dispatch_call(self, fname, call, fi, al, kind, env):
        res = self.res
        ab = res.abstract_of(fname)
        rules = res.rules_of(fname)
        if not rules:
            return None
        # bind arguments
        if ab is not None:
            pnames = [p[0] for p in ab.params]
            bound = df.bind_call(call, pnames)
            exprs = []
            for i, p in enumerate(ab.params):
                if p[0] in bound:
                    exprs.append(bound[p[0]])
                elif p[2] is not None:
                    exprs.append(p[2])
                else:
                    return None
            ctx_for_default = ab
        else:
            if any(isinstance(a, ast.Starred) for a in call.args):
                return None
            exprs = list(call.args)
        doms = []
        alias_pos = []
        for i, e in enumerate(exprs):
            if isinstance(e, ast.Name) and e.id in al:
                doms.append([Arg(kind, self.intr.get(kind, frozenset()))])
                alias_pos.append(i)
                continue
            c = self.expr_classes(e, fi, env)
            if c is None:
                c = self.representative(fname, i)
            if c is None:
                return None
            doms.append([Arg(x) for x in sorted(c)])
        if not alias_pos:
            return None
        for tup in itertools.product(*doms):
            # non-annotation conditions ("all factors square") are structural preconditions of the
            # property's statement and are taken to hold along forwarding chains
            for st, win, cands, matching in (res.resolve(fname, tup, None), ):
                if st != "OK":
                    continue
                rule = win[0][0]
                env2 = {}
                for i, a in enumerate(tup):
                    if i < len(rule.params) and i not in alias_pos:
                        env2[rule.params[i][0]] = a.cls
                # keyword arguments of plain dispatch functions reach the method but not the resolver
                if ab is None:
                    for k in call.keywords:
                        if k.arg:
                            c = self.expr_classes(k.value, fi, env)
                            if c and len(c) == 1:
                                env2[k.arg] = next(iter(c))
                # defaults of the selected rule for omitted parameters
                for pn, pt, pd in rule.params[len(tup):]:
                    if pd is not None and pn not in env2:
                        c = self.expr_classes(pd, rule.func, {})
                        if c and len(c) == 1:
                            env2[pn] = next(iter(c))
                for i in alias_pos:
                    if i < len(rule.params):
                        sub = self.densifies(rule.func, rule.params[i][0], kind, env2)
                        if sub:
                            return [(f"selects {rule.role} for ({', '.join(map(repr, tup))})", rule.loc)] + sub
        return None


def product_methods(idx, rep):
    """clause 1"""
    found_positive = 0
    for kind in PRODUCT_KINDS:
        if not idx.has_cls(kind):
            rep.missing_anchor(f"operator class {kind}")
            continue
        ci = idx.cls(kind)
        for mname in ("_matmat", "_rmatmat"):
            meth = idx.find_method(ci, mname)
            if meth is None:
                rep.missing_anchor(f"{kind}.{mname}")
                continue
            bad = scan_materialisers(idx, meth, set())
            construct = f"{kind}.{mname}"
            if bad:
                what, loc = bad[0]
                rep.refuted("matrix-free-product", construct, f"{construct} (defined in {meth.short}) materialises the operator: {what}",
                            detail=what.split(":")[0], locs=[loc], derivation=[list(b) for b in bad])
            else:
                rep.proved("matrix-free-product", construct, f"no to_dense/densify/eye/kron/block_diag/diag call reachable from {meth.short}",
                           locs=[idx.loc(meth.module, meth.node)])
        td = ci.methods.get("to_dense")
        if td is not None and scan_materialisers(idx, td, set(), allow_parts=False):
            found_positive += 1
    base_td = idx.find_method(idx.cls("LinearOperator"), "to_dense")
    if base_td is not None and scan_materialisers(idx, base_td, set(), allow_parts=False):
        found_positive += 1
    # positive example: the detector must recognise the densification code the tree does contain
    if found_positive < 3:
        rep.missing_anchor(f"materialiser detector matched only {found_positive} to_dense implementations (expected >= 3)")
    rep.analysed["materialiser_positive_examples"] = found_positive


def scan_materialisers(idx, fi, seen, allow_parts=True):
    """materialiser calls in fi and in the plain helpers it calls; -> [(what, loc)]"""
    if id(fi.node) in seen:
        return []
    seen.add(id(fi.node))
    out = []
    selfname = fi.params[0] if fi.cls is not None and fi.params else "self"
    for n in df.body_nodes(fi.node, into_nested=True):
        if not isinstance(n, ast.Call):
            continue
        f = n.func
        x = df.is_xnp_call(n)
        if x in MATERIALISERS:
            out.append((f"{x}: `{ast.unparse(n)[:80]}` builds a {MATERIALISERS[x]}", idx.loc(fi.module, n)))
            continue
        if isinstance(f, ast.Attribute) and f.attr in DENSE_METHODS:
            recv = f.value
            if isinstance(recv, ast.Name) and recv.id == selfname or not allow_parts:
                out.append((f"to_dense: `{ast.unparse(n)[:80]}` materialises the operator", idx.loc(fi.module, n)))
            continue
        r = idx.resolve_expr(fi.module, f, fi)
        if r is not None and r.kind == "funcs":
            callee = r.val[-1]
            if callee.name == "densify" and n.args and isinstance(n.args[0], ast.Name) and n.args[0].id == selfname:
                out.append((f"densify: `{ast.unparse(n)[:80]}`", idx.loc(fi.module, n)))
            elif getattr(callee, "rule", None) is None and callee.module.name.startswith("cola.ops") and callee.cls is None:
                out += scan_materialisers(idx, callee, seen, allow_parts)
        elif isinstance(f, ast.Attribute) and isinstance(f.value, ast.Name) and f.value.id == selfname and fi.cls is not None:
            meth = idx.find_method(fi.cls, f.attr)
            if meth is not None and f.attr not in ("_matmat", "_rmatmat"):
                out += scan_materialisers(idx, meth, seen, allow_parts)
    return out


def spec_tuples(fname, kind, res, idx, intr):
    """argument tuples (per arity) for a required pair"""
    spec = DOMAINS.get(fname)
    if spec is None:
        return
    ab = res.abstract_of(fname)
    required = sum(1 for k in spec if not k.endswith("?"))
    full = len(spec)
    arities = [full] if ab is not None else list(range(required, full + 1))
    for n in arities:
        doms = []
        for p in range(n):
            k = spec[p].rstrip("?")
            if k in ("OP", "OPARR"):
                # every declared annotation: a conditional rule may outrank the structural one
                seen, dd = set(), []
                for v in [frozenset()] + [frozenset({a}) for a in ANNOTS]:
                    sset = intr.get(kind, frozenset()) | v
                    if sset not in seen:
                        seen.add(sset)
                        dd.append(Arg(kind, sset))
                doms.append(dd)
            elif k == "ALG":
                doms.append([Arg(a) for a in admitted_algorithms(idx, res, fname, p)])
            elif k == "INT":
                doms.append([Arg("int")])
            elif k == "STR":
                doms.append([Arg("str")])
            elif k == "NUMBER":
                doms.append([Arg("float"), Arg("int")])
            elif k == "CALL":
                doms.append([Arg("function")])
            elif k == "SCALAR":
                doms.append([Arg("float")])
        for tup in itertools.product(*doms):
            yield n, full, tup


def run(idx, rep, tier):
    intr = intrinsic_annotations(idx)
    core = frozenset(idx.core_modules())
    res = Resolver(idx, core)
    rep.analysed["configuration"] = "core (functions reachable through `import cola`)"
    # ---- clause 1
    product_methods(idx, rep)
    # ---- clause 2
    dens = Densify(idx, res, intr)
    n_nodes = 0
    for fname, kinds in sorted(REQUIRED.items()):
        if not res.rules_of(fname):
            rep.missing_anchor(f"dispatched function {fname}")
            continue
        opidx = [i for i, k in enumerate(DOMAINS[fname]) if k.rstrip("?") in ("OP", "OPARR")][0]
        for kind in kinds:
            if not idx.has_cls(kind):
                rep.missing_anchor(f"operator class {kind}")
                continue
            bad = {}
            n_ok = 0
            # The condition of a REQUIRED structural rule may only state the structural precondition of the property (the factors are
            # square): if it also consults annotations of the parts or the algorithm argument, structured operands for which it fails
            # fall through to the base case (explored below with the condition false).
            impure = set()
            for r_ in res.rules_of(fname):
                if r_.cond is None or not any(kind in ts for ts in r_.types[opidx:opidx + 1]):
                    continue
                cnode = r_.cond
                if isinstance(cnode, ast.Name):
                    rr = idx.resolve_expr(r_.module, cnode, r_.func)
                    cnode = rr.val[-1].node if rr is not None and rr.kind == "funcs" else cnode
                opname = (cnode.args.args[opidx].arg if isinstance(cnode, (ast.Lambda, ast.FunctionDef)) and len(cnode.args.args) > opidx else None)
                reads_alg = isinstance(cnode, (ast.Lambda, ast.FunctionDef)) and any(isinstance(x, ast.Name) and x.id in [a_.arg for a_ in cnode.args.args if a_.arg != opname] for x in ast.walk(cnode))
                reads_annot = any(isinstance(x, ast.Attribute) and x.attr in ("isa", "annotations") for x in ast.walk(cnode)) and res.cond_value(r_, [Arg(kind)] * 8) is None
                if (fname, kind) in CONDITIONAL and (reads_alg or reads_annot):
                    impure.add(r_)
                    rep.note(f"{r_.role}: the condition reads " + ("the other arguments" if reads_alg else "annotations of the parts") + "; explored with the condition false as well")
            for n, full, tup in spec_tuples(fname, kind, res, idx, intr):
                for free, (st, win, cands, matching) in res.resolve_all(fname, tup):
                    want = CONDITIONAL.get((fname, kind))
                    if want is not None and any(v != want for r__, v in free.items() if r__ not in impure):
                        continue
                    if st != "OK":
                        continue  # C04's business
                    n_nodes += 1
                    rule = win[0][0]
                    env = {rule.params[i][0]: a.cls for i, a in enumerate(tup) if i != opidx and i < len(rule.params)}
                    for pn, pt, pd in rule.params[len(tup):]:
                        if pd is not None:
                            c = dens.expr_classes(pd, rule.func, {})
                            if c and len(c) == 1:
                                env[pn] = next(iter(c))
                    path = dens.densifies(rule.func, rule.params[opidx][0], kind, env)
                    label = f"{fname}({', '.join(repr(a) for a in tup)})" + (" [optional argument omitted]" if n < full else "")
                    if path:
                        term = path[-1][0].split(":")[0]
                        key = ("omitted" if n < full else "explicit", term)
                        b = bad.setdefault(key, {"calls": [], "path": path, "rule": rule})
                        b["calls"].append(label)
                    else:
                        n_ok += 1
                        if n_nodes % 37 == 0:
                            rep.sample({"call": label, "selected": rule.role, "verdict": "no path to a materialiser of the operator itself"})
            construct = f"{fname}({kind})"
            if not bad:
                rep.proved("structural-rule", construct, f"{n_ok} (algorithm, arity) selections work factor by factor")
            for (how, term), b in sorted(bad.items()):
                rep.refuted("structural-rule", construct + ("/omitted-optional" if how == "omitted" else ""),
                            f"{b['calls'][0]} (and {len(b['calls']) - 1} more) selects {b['rule'].role} and densifies the {kind}: " + " -> ".join(p[0] for p in b["path"]),
                            detail=term, locs=[p[1] for p in b["path"]], derivation={"calls": b["calls"][:12], "path": [list(p) for p in b["path"]]})
    # wrappers (solve, logdet)
    for w, target in sorted(WRAPPERS.items()):
        fis = [f for f in idx.funcs_named(w) if f.module.name in core and getattr(f, "rule", None) is None]
        if not fis:
            rep.missing_anchor(f"public wrapper {w}")
            continue
        fi = fis[-1]
        for kind in REQUIRED[target]:
            algpos = [p for p in fi.params if "alg" in p]
            algs = admitted_algorithms(idx, res, target, 1)
            bad = None
            for a in algs:
                env = {p: a for p in algpos}
                path = dens.densifies(fi, fi.params[0], kind, env)
                if path:
                    bad = (a, path)
                    break
            if bad:
                rep.refuted("structural-rule", f"{w}({kind})", f"{w}({kind}, {bad[0]}) densifies: " + " -> ".join(p[0] for p in bad[1]),
                            detail=bad[1][-1][0].split(":")[0], locs=[p[1] for p in bad[1]])
            else:
                rep.proved("structural-rule", f"{w}({kind})", f"{w} forwards to {target} without materialising, {len(algs)} algorithm classes")
    rep.analysed["dispatch_edges_followed"] = dens.edges
    rep.analysed["selection_nodes"] = n_nodes
    # ---- clause 3: default-arity consistency
    kinds = [c.name for c in idx.operator_classes() if c.module.name in core]
    for fname in sorted(idx.rules):
        if res.abstract_of(fname) is not None:
            continue
        rules = res.rules_of(fname)
        if not any(len(r.sigs) > 1 for r in rules):
            continue
        full = max(len(r.params) for r in rules)
        opidx = None
        for i in range(full):
            if any(i < len(r.params) and r.params[i][1] & dens.ops for r in rules):
                opidx = i
                break
        if opidx is None:
            continue
        for kind in kinds:
            for short in sorted({len(s) for r in rules for s in r.sigs if len(s) < full}):
                # build the short tuple from representatives
                tup = []
                ok = True
                for i in range(short):
                    if i == opidx:
                        tup.append(Arg(kind, intr.get(kind, frozenset())))
                    else:
                        c = dens.representative(fname, i)
                        if not c:
                            ok = False
                            break
                        tup.append(Arg(sorted(c)[0]))
                if not ok:
                    continue
                st, win, _, _ = res.resolve(fname, tuple(tup))
                if st != "OK":
                    continue
                r_short = win[0][0]
                ext = list(tup)
                for pn, pt, pd in r_short.params[short:]:
                    c = dens.expr_classes(pd, r_short.func, {}) if pd is not None else None
                    if not c:
                        ok = False
                        break
                    ext.append(Arg(sorted(c)[0]))
                if not ok:
                    rep.undecided("default-arity", f"{fname}({kind})/{short}", "default value's class unknown")
                    continue
                st2, win2, _, _ = res.resolve(fname, tuple(ext))
                if st2 != "OK":
                    continue
                r_full = win2[0][0]
                construct = f"{fname}({kind})/{short}"
                if r_full is r_short:
                    rep.proved("default-arity", construct, f"{fname}({', '.join(a.cls for a in tup)}) and the call with the default made explicit select the same rule {r_short.role}",
                               nontrivial=len(rules) > 1)
                else:
                    rep.refuted("default-arity", construct,
                                f"{fname}({', '.join(a.cls for a in tup)}) selects {r_short.role} but {fname}({', '.join(a.cls for a in ext)}) selects {r_full.role}: "
                                "omitting the optional argument silently bypasses the structural rule",
                                detail=f"{r_short.role}!={r_full.role}", locs=[r_short.loc, r_full.loc])
    # ---- a slice never materialises its parent: the exact diagonal / trace estimators (and row extraction) take n-by-b slices of
    # identities and of structured operators precisely to stay below n^2
    if idx.has_cls("Sliced"):
        sl = idx.cls("Sliced")
        n_bad = 0
        for m in sl.methods.values():
            for c in df.calls(m.node):
                f = c.func
                dense_of_parent = (isinstance(f, ast.Attribute) and f.attr in ("to_dense", "todense") and ast.unparse(f.value).replace(" ", "") in ("self.A", )) or \
                    (isinstance(f, (ast.Name, ast.Attribute)) and ast.unparse(f).endswith("densify") and c.args and ast.unparse(c.args[0]).replace(" ", "") == "self.A")
                if dense_of_parent:
                    n_bad += 1
                    rep.refuted("matrix-free-product", f"Sliced.{m.name}:parent", f"`{ast.unparse(c)}` materialises the whole parent operator to read a slice of it: every n-by-b identity / operator "
                                "chunk taken by the exact diagonal estimator and every small sub-block then costs n^2 memory", detail="densifies-parent", locs=[idx.loc(m.module, c)])
        if not n_bad:
            rep.proved("matrix-free-product", "Sliced:parent", "no method of Sliced densifies the parent operator", locs=[idx.loc(sl.module, sl.node)])
    probe_side(idx, rep)
    rep.floor("matrix-free-product", 18)
    rep.floor("probe-side", 1)
    rep.floor("structural-rule", 60)
    rep.floor("default-arity", 100)
    rep.explanation = ("Reachability over the call graph with dispatch edges resolved by the plum resolver model: (1) materialiser calls in the "
                       "product methods of the structured kinds, (2) least fixpoint 'may materialise its own operator argument' over "
                       "(function, kind, algorithm class, arity) selections for the required structural pairs, (3) same winner with the optional "
                       "algorithm omitted or explicit.")
    rep.assumptions += [
        "a materialiser is: <operator>.to_dense(), densify(<operator>), <operator> @ eye, xnp.kron/block_diag/eye/diag inside a product method",
        "forwarding the factors (A.Ms, blocks) is allowed: 'plus the dense sizes of the individual factors'",
        "the algorithm class at a forwarding call is the parameter's class, the class of a constructor call, or every admitted class when unknown",
        "peak memory as a number is not decided",
    ]


def _shape_axis(e):
    """axis of `self.shape[i]` (0 rows / 1 columns), with an optional constant factor: returns (axis, factor) or None"""
    if isinstance(e, ast.BinOp) and isinstance(e.op, ast.Mult):
        for c, x in ((e.left, e.right), (e.right, e.left)):
            if isinstance(c, ast.Constant) and isinstance(c.value, (int, float)) and c.value > 0:
                r = _shape_axis(x)
                if r is not None:
                    return (r[0], r[1] * c.value)
        return None
    if isinstance(e, ast.Subscript) and isinstance(e.value, ast.Attribute) and e.value.attr == "shape" and ast.unparse(e.value.value) == "self":
        i = e.slice
        v = i.value if isinstance(i, ast.Constant) else (-i.operand.value if isinstance(i, ast.UnaryOp) and isinstance(i.op, ast.USub) and isinstance(i.operand, ast.Constant) else None)
        if isinstance(v, int) and v in (0, 1, -1, -2):
            return ({-1: 1, -2: 0}.get(v, v), 1)
    return None


def probe_side(idx, rep):
    """the generic densifier multiplies the operator into an identity: on the branch taken because one dimension is (a multiple)
    smaller than the other, the identity must have the SMALL dimension -- the n-by-b chunks the exact diagonal / trace estimators
    densify are n x 100, and probing them from the long side costs n^2"""
    td = idx.find_method(idx.cls("LinearOperator"), "to_dense")
    if td is None:
        rep.missing_anchor("LinearOperator.to_dense")
        return
    for r in df.returns(td.node):
        v = r.value
        if not (isinstance(v, ast.BinOp) and isinstance(v.op, ast.MatMult)):
            continue
        eye = next((x for x in (v.left, v.right) if isinstance(x, ast.Call) and df.is_xnp_call(x) and x.func.attr == "eye" and x.args), None)
        if eye is None:
            continue
        side = "left" if eye is v.left else "right"
        size_e = eye.args[0]
        for _k in range(4):  # through locals, in program order (`size = n_rows` on this branch, `n_rows = self.shape[-2]` above)
            if not isinstance(size_e, ast.Name):
                break
            nxt = df.resolve_at(td.node, size_e)
            if nxt is size_e:
                break
            size_e = nxt
        dim = _shape_axis(size_e)
        construct = f"LinearOperator.to_dense:{side}-probe"
        loc = idx.loc(td.module, getattr(r, "_origin", r))
        if dim is None:
            rep.undecided("probe-side", construct, f"size of the identity `{ast.unparse(eye.args[0])}` not read", locs=[loc])
            continue
        want = 0 if side == "left" else 1  # eye(rows) @ A, A @ eye(columns)
        if dim[0] != want:
            rep.refuted("probe-side", construct, f"`{ast.unparse(v)[:70]}`: an identity of the {'column' if dim[0] else 'row'} dimension is multiplied from the {side}", detail="contraction",
                        locs=[loc])
            continue
        verdict, why = True, f"identity of the {'row' if want == 0 else 'column'} dimension multiplied from the {side}"
        for t, pol in df.branch_conditions(r, td.node):
            if not (isinstance(t, ast.Compare) and len(t.ops) == 1):
                continue
            a, b = _shape_axis(t.left), _shape_axis(t.comparators[0])
            if a is None or b is None or a[0] == b[0]:
                continue
            op = t.ops[0]
            if isinstance(op, (ast.Gt, ast.GtE)):
                a, b = b, a
            elif not isinstance(op, (ast.Lt, ast.LtE)):
                continue
            # f_a * shape[a] < f_b * shape[b]
            if pol and a[1] >= b[1]:
                small = a[0]  # holds: shape[a] is the (strictly) smaller dimension
            elif not pol and a[1] <= b[1]:
                small = b[0]  # fails: f_a * shape[a] >= f_b * shape[b] with f_a <= f_b gives shape[a] >= shape[b]; with f_a > f_b nothing follows
            else:
                continue
            if small != dim[0]:
                verdict = False
                why = (f"on the branch where `{ast.unparse(t)}` {'holds' if pol else 'fails'} the {'row' if small == 0 else 'column'} dimension is the small one, but the operator is "
                       f"multiplied into an identity of the {'row' if dim[0] == 0 else 'column'} dimension: a tall n-by-b chunk is densified through an n-by-n identity")
        rep.decide(verdict, "probe-side", construct, why, detail="" if verdict else "long-side", locs=[loc])
