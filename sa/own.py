"""OWN analysis (DESIGN.md 4/C18): ownership / freshness of storage, in-place write sites,
bottom-up parameter-write summaries to a fixpoint.

Origins (a value may have several): ('fresh',) ('scalar',) ('param', p) ('self', attr)
('global', name) ('unknown', text) ('tuple', (origins, ...)).  A view has the origins of its base.
"""
import ast

from sa import dataflow as df

FRESH = frozenset({("fresh", )})
SCALAR = frozenset({("scalar", )})

# backend functions returning fresh storage (confirmed by reading the three *_fns modules)
XNP_FRESH = {
    "zeros", "ones", "eye", "copy", "array", "canonical", "concat", "stack", "where", "roll", "kron", "arange", "randn", "zeros_like", "ones_like",
    "norm", "sum", "abs", "sqrt", "exp", "log", "max", "min", "mean", "diag", "argsort", "sort", "clip", "nan_to_num", "eigh", "eig", "svd", "qr",
    "cholesky", "solve", "solvetri", "lu", "lstsq", "fft", "ifft", "prod", "sign", "maximum", "any", "all", "isreal", "finfo", "PRNGKey", "next_key",
    "get_device", "get_default_device", "block_diag", "inv", "slogdet", "cos", "sin", "allclose", "promote_types", "is_array", "iscomplexobj", "sparse_csr",
    "to_np", "softmax", "log_softmax", "convolve", "lu_solve", "dynamic_slice", "device", "tree_flatten", "tree_unflatten", "is_leaf", "argmax",
    "get_array_device", "is_cuda_available", "tensordot", "linear_transpose", "jvp_derivs", "vjp_derivs", "grad", "jit", "vmap",
}
# backend functions whose result may share storage with their first argument
# library functions that return their argument itself when it already has the requested layout / dtype
EXTERNAL_MAY_ALIAS = {"asarray", "asanyarray", "asfortranarray", "ascontiguousarray", "atleast_1d", "atleast_2d", "atleast_3d", "ravel", "reshape", "squeeze", "transpose",
                      "as_tensor", "from_numpy", "view_as_real", "view_as_complex"}
XNP_VIEW = {"reshape", "moveaxis", "permute", "expand", "Parameter", "move_to", "cast", "conj", "stop_gradients"}
METHOD_FRESH = {"copy", "clone", "astype", "sum", "mean", "max", "min", "prod", "std", "var", "norm", "item", "tolist", "cpu", "numpy", "detach", "any", "all",
                "argsort", "nonzero", "tocsr", "keys", "values", "items", "get", "format", "join", "split", "find", "isa", "flatten", "dot", "round", "to_bytes",
                "bit_length", "digest", "index", "count", "startswith", "endswith"}
METHOD_VIEW = {"reshape", "view", "squeeze", "unsqueeze", "transpose", "conj", "conjugate", "ravel", "swapaxes", "T", "to_dense", "to", "real", "imag", "data", "H"}
MUTATING_METHODS = {"append", "extend", "insert", "pop", "remove", "clear", "update", "add", "discard", "setdefault", "sort", "reverse", "fill", "popitem",
                    "resize", "put", "itemset", "setflags", "partition", "byteswap", "difference_update", "intersection_update", "symmetric_difference_update"}
BUILTIN_FRESH = {"list", "tuple", "dict", "set", "frozenset", "sorted", "reversed", "zip", "enumerate", "range", "map", "filter", "iter", "sum", "type", "str",
                 "repr", "bytes", "object"}
BUILTIN_SCALAR = {"len", "int", "float", "complex", "bool", "abs", "round", "min", "max", "hash", "id", "isinstance", "issubclass", "hasattr", "callable", "ord",
                  "chr", "pow", "divmod"}
OPERATOR_ATTRS = {"xnp", "isa", "Ms", "to_dense", "annotations", "H", "_matmat", "_rmatmat", "flatten", "multiplicities"}
SCALAR_ANNOT = {"int", "float", "bool", "str", "complex"}
CONSTRUCTOR_METHODS = {"__init__", "__new__", "__setattr__", "tree_unflatten", "__post_init__"}


def show(orig):
    out = []
    for o in sorted(orig, key=str):
        if o[0] == "tuple":
            out.append("(" + ", ".join(show(x) for x in o[1]) + ")")
        elif o[0] in ("shallow", "unflattener"):
            out.append(f"{o[0]}({show(o[1])})")
        elif len(o) == 1:
            out.append(o[0])
        else:
            out.append(f"{o[0]}:{o[1]}")
    return "|".join(out) or "-"


def flat(orig):
    """flatten tuple origins"""
    out = set()
    for o in orig:
        if o[0] == "tuple":
            for x in o[1]:
                out |= flat(x)
        else:
            out.add(o)
    return frozenset(out)


def elements_of(orig):
    """origins of the elements of a container with these origins: a tuple's components, what a fresh container was filled with
    ('shallow'), the container itself for anything else (an element of a parameter list is the parameter's)"""
    out = set()
    for o in orig:
        if o[0] == "tuple":
            for x in o[1]:
                out |= x
        elif o[0] == "shallow":
            out |= set(o[1])
        else:
            out.add(o)
    return frozenset(out)


class WriteSite:
    def __init__(self, fi, node, kind, target_text, origins, detail=""):
        self.fi, self.node, self.kind, self.target_text, self.origins, self.detail = fi, node, kind, target_text, flat(origins), detail


class FnResult:
    def __init__(self):
        self.sites = []  # WriteSite
        self.param_writes = {}  # param -> [reason text]
        self.self_writes = {}  # attr (or '' for whole) -> [site]
        self.ret = frozenset()  # origins of the return value (in terms of own params)
        self.calls_out = []  # (call node, callee FuncInfo list, {param: origins})


class Own:
    def __init__(self, idx, excluded=()):
        self.idx = idx
        self.excluded = set(excluded)
        self.results = {}  # id(fnode) -> FnResult
        self.stack = set()
        self.inlined = set()
        self.matmul_may_alias = self._matmul_may_alias()
        self.nonempty_loops = set()  # id(call) of loops a client has shown to run at least once: their result is what the body returns
        self.methods_by_name = {}
        for ci in idx.classes.values():
            for name, m in ci.methods.items():
                self.methods_by_name.setdefault(name, []).append(m)

    def backend_functions(self, name):
        """the def of backend primitive `name` in every cola/backends/*_fns.py that defines it with a def (aliases of library
        functions have no body to analyse); update_array is handled as a primitive write"""
        if name in ("update_array", ):
            return []
        cache = self.__dict__.setdefault("_backend_fn_cache", {})
        if name not in cache:
            cache[name] = [f for f in self.idx.funcs.values() if f.parent is None and f.cls is None and f.short == name
                           and f.module.name.startswith("cola.backends.") and f.module.name.endswith("_fns") and id(f.node) not in self.excluded]
        return cache[name]

    def _matmul_may_alias(self):
        """does some _matmat return its operand (or a view of it)?  Then `A @ x` may alias x."""
        found = []
        for ci in self.idx.operator_classes():
            m = ci.methods.get("_matmat")
            if m is None or len(m.params) < 2:
                continue
            p = m.params[1]
            for r in df.returns(m.node):
                if isinstance(r.value, ast.Name) and r.value.id == p and p not in df.assignments(m.node):
                    found.append(f"{ci.name}._matmat")
        return found

    # ------------------------------------------------------------ parameters
    def param_kind(self, fi, p):
        """'scalar' | 'operator' | 'array?'"""
        a = fi.node.args
        allp = a.posonlyargs + a.args + a.kwonlyargs
        node = next((x for x in allp if x.arg == p), None)
        if p in ("self", "cls") and fi.cls is not None:
            return "operator"
        if node is not None and node.annotation is not None:
            t = ast.unparse(node.annotation)
            if t in SCALAR_ANNOT:
                return "scalar"
            if "LinearOperator" in t or t in {c.name for c in self.idx.operator_classes()}:
                return "operator"
        d = df.param_defaults(fi.node).get(p)
        if isinstance(d, ast.Constant) and isinstance(d.value, (int, float, complex, str, bool)) and d.value is not None:
            return "scalar"
        if isinstance(d, ast.UnaryOp) and isinstance(d.operand, ast.Constant):
            return "scalar"
        for n in df.body_nodes(fi.node, into_nested=True):
            if isinstance(n, ast.Attribute) and isinstance(n.value, ast.Name) and n.value.id == p and n.attr in OPERATOR_ATTRS:
                return "operator"
        if p in ("xnp", ):
            return "scalar"
        return "array?"

    # ------------------------------------------------------------ analysis of one function
    def analyse(self, fi, env0=None):
        key = id(fi.node)
        if key in self.results and env0 is None:
            return self.results[key]
        if key in self.stack:
            return None
        self.stack.add(key)
        try:
            res = FnResult()
            env = {}
            a = fi.node.args
            for x in a.posonlyargs + a.args + a.kwonlyargs:
                env[x.arg] = frozenset({("param", x.arg)})
            if a.vararg:
                env[a.vararg.arg] = frozenset({("param", a.vararg.arg)})
            if a.kwarg:
                env[a.kwarg.arg] = frozenset({("param", a.kwarg.arg)})
            if env0:
                env = {**env0, **env}
                sp = env0.get("__state_param__")
                if sp is not None and sp in env:
                    env[sp] = env0["__state__"]
                env.pop("__state__", None)
                env.pop("__state_param__", None)
            st = _State(self, fi, res, env)
            st.block(fi.node.body)
            res.ret = frozenset(st.ret) if st.ret else FRESH
            res.env_final = st.env
            if env0 is None:
                self.results[key] = res
            return res
        finally:
            self.stack.discard(key)

    def summary(self, fi):
        r = self.analyse(fi)
        return r


class _State:
    def __init__(self, own, fi, res, env):
        self.own, self.idx, self.fi, self.res, self.env = own, own.idx, fi, res, dict(env)
        self.ret = set()
        self.nested_done = set()

    # ---- environment helpers
    def lookup(self, name):
        if name in self.env:
            return self.env[name]
        r = self.idx.resolve_name(self.fi.module, name, self.fi)
        if r is None:
            return frozenset({("unknown", name)})
        if r.kind in ("funcs", "class", "module", "external"):
            return FRESH if r.kind != "module" else frozenset({("global", name)})
        if r.kind == "builtin":
            return SCALAR
        if r.kind == "value":
            return frozenset({("global", name)})
        if r.kind == "local":
            return frozenset({("unknown", name)})
        return frozenset({("unknown", name)})

    def bind(self, target, orig, path=None):
        if isinstance(target, ast.Name):
            self.env[target.id] = orig
        elif isinstance(target, (ast.Tuple, ast.List)):
            tup = [o for o in orig if o[0] == "tuple"]
            rest = elements_of(frozenset(o for o in orig if o[0] != "tuple"))
            star = [i for i, e in enumerate(target.elts) if isinstance(e, ast.Starred)]
            n = len(target.elts)
            for i, e in enumerate(target.elts):
                o = set(rest)
                for t in tup:
                    elts = t[1]
                    if isinstance(e, ast.Starred):
                        for x in elts:
                            o |= x
                    elif not star or i < star[0]:
                        o |= elts[i] if i < len(elts) else frozenset({("unknown", "unpack")})
                    else:
                        j = i - n
                        o |= elts[j] if -len(elts) <= j else frozenset({("unknown", "unpack")})
                if not tup and not rest:
                    o = {("unknown", "unpack")}
                self.bind(e.value if isinstance(e, ast.Starred) else e, frozenset(o))
        # attribute / subscript targets are write sites, handled by the caller

    # ---- expressions
    def origin(self, e):
        o = self._origin(e)
        return o if o else frozenset({("unknown", ast.unparse(e)[:30])})

    def _origin(self, e):
        if e is None:
            return SCALAR
        if isinstance(e, ast.Constant):
            return SCALAR
        if isinstance(e, ast.Name):
            return self.lookup(e.id)
        if isinstance(e, ast.Attribute):
            if isinstance(e.value, ast.Name) and e.value.id == "self" and self.fi.enc_cls is not None and "self" in self._self_names():
                if e.attr in ("shape", "dtype", "device", "xnp"):
                    return SCALAR
                return frozenset({("self", e.attr)})
            if e.attr in ("shape", "dtype", "device", "ndim", "size", "__name__", "__class__", "__dict__", "xnp", "eps"):
                return SCALAR if e.attr != "__dict__" else self.origin(e.value)
            base = self.origin(e.value)
            if any(o[0] == "shallow" for o in base):
                out = set()
                for o in base:
                    out |= set(o[1]) if o[0] == "shallow" else {o}
                return frozenset(out)
            return base
        if isinstance(e, ast.Subscript):
            base = self.origin(e.value)
            if isinstance(e.slice, ast.Constant) and isinstance(e.slice.value, int):
                out = set()
                for o in base:
                    if o[0] == "tuple":
                        i = e.slice.value
                        out |= o[1][i] if -len(o[1]) <= i < len(o[1]) else {("unknown", "index")}
                    else:
                        out.add(o)
                return frozenset(x for o in out for x in (o[1] if o[0] == "shallow" else [o]))
            if any(o[0] == "shallow" for o in base) and not isinstance(e.slice, ast.Slice):
                return frozenset(x for o in flat(base) for x in (o[1] if o[0] == "shallow" else [o]))
            return flat(base)
        if isinstance(e, ast.Starred):
            return self.origin(e.value)
        if isinstance(e, ast.Tuple):
            return frozenset({("tuple", tuple(self.origin(x) for x in e.elts))})
        if isinstance(e, (ast.List, ast.Set)) and e.elts:
            # a new container holding the given objects: writing into an element writes into that object
            eo = set()
            for x in e.elts:
                eo |= elements_of(self.origin(x.value)) if isinstance(x, ast.Starred) else self.origin(x)
            eo = frozenset(o for o in flat(frozenset(eo)) if o not in (("fresh", ), ("scalar", )))
            return frozenset({("shallow", eo)}) if eo else FRESH
        if isinstance(e, (ast.ListComp, ast.SetComp, ast.GeneratorExp)) and len(e.generators) == 1 and not e.generators[0].is_async:
            g = e.generators[0]
            saved = dict(self.env)
            try:
                self.bind(g.target, elements_of(self.origin(g.iter)))
                for c_ in g.ifs:
                    self.origin(c_)
                eo = self.origin(e.elt)
            finally:
                self.env = saved
            eo = frozenset(o for o in flat(eo) if o not in (("fresh", ), ("scalar", )))
            return frozenset({("shallow", eo)}) if eo else FRESH
        if isinstance(e, (ast.List, ast.Dict, ast.Set, ast.ListComp, ast.SetComp, ast.DictComp, ast.GeneratorExp, ast.Lambda, ast.JoinedStr)):
            self._scan_nested_calls(e)
            return FRESH
        if isinstance(e, ast.IfExp):
            return self.origin(e.body) | self.origin(e.orelse)
        if isinstance(e, ast.BoolOp):
            out = frozenset()
            for v in e.values:
                out |= self.origin(v)
            return out
        if isinstance(e, ast.NamedExpr):
            o = self.origin(e.value)
            self.bind(e.target, o)
            return o
        if isinstance(e, (ast.Compare, ast.UnaryOp)):
            for sub in ast.iter_child_nodes(e):
                if isinstance(sub, ast.expr):
                    self.origin(sub)
            return FRESH
        if isinstance(e, ast.BinOp):
            lo, ro = self.origin(e.left), self.origin(e.right)
            if isinstance(e.op, ast.MatMult) and self.own.matmul_may_alias:
                out = set(FRESH)
                for side, o in ((e.left, lo), (e.right, ro)):
                    for x in flat(o):
                        if x[0] == "param" and self.own.param_kind(self._owner_of_param(x[1]), x[1]) == "operator":
                            continue
                        if x[0] in ("param", "self", "global", "unknown"):
                            out.add(x)
                return frozenset(out)
            return FRESH
        if isinstance(e, ast.Call):
            return self.call(e)
        if isinstance(e, ast.Await):
            return self.origin(e.value)
        return frozenset({("unknown", type(e).__name__)})

    def _self_names(self):
        f = self.fi
        while f is not None:
            if f.cls is not None and f.params and f.params[0] == "self":
                return {"self"}
            if f.parent is None:
                break
            f = f.parent
        return {"self"} if (f is not None and f.cls is not None) else set()

    def _owner_of_param(self, p):
        f = self.fi
        while f is not None:
            a = f.node.args
            if p in [x.arg for x in a.posonlyargs + a.args + a.kwonlyargs]:
                return f
            f = f.parent
        return self.fi

    def _scan_nested_calls(self, e):
        """comprehension / lambda bodies: still look for write sites and calls"""
        for n in ast.walk(e):
            if isinstance(n, ast.comprehension):
                self.bind(n.target, flat(self.origin(n.iter)))
        for n in ast.walk(e):
            if n is e:
                continue
            if isinstance(n, ast.Call):
                self.call(n, nested=True)

    # ---- calls
    def call(self, c, nested=False):
        f = c.func
        args = list(c.args) + [k.value for k in c.keywords]
        # evaluate argument expressions (finds nested write sites, walrus...)
        arg_orig = {}
        for a in args:
            arg_orig[id(a)] = self.origin(a)
        x = df.is_xnp_call(c)
        if x is not None:
            if x == "update_array":
                tgt = c.args[0] if c.args else None
                o = self.origin(tgt) if tgt is not None else frozenset({("unknown", "update_array()")})
                self.write(c, "update_array", tgt, o)
                return o
            if x in ("while_loop", "while_loop_no_jit", "for_loop"):
                return self.loop_call(c, x)
            if x == "while_loop_winfo":
                return frozenset({("tuple", (frozenset({("winfo", id(c))}), FRESH))})
            for bf in self.own.backend_functions(x):
                summ = self.own.analyse(bf)
                if summ is None:
                    continue
                for p in summ.param_writes:
                    if p in bf.params and bf.params.index(p) < len(c.args):
                        tgt = c.args[bf.params.index(p)]
                        self.write(c, f"call xnp.{x}(writes {p} in {bf.module.name.rsplit('.', 1)[-1]})", tgt, self.origin(tgt))
            if x == "tree_flatten" and c.args:
                # (leaves, structure): the leaves are the operator's own arrays, the structure holds its static attributes
                return flat(arg_orig[id(c.args[0])])
            if x == "tree_unflatten":
                # a new object whose attributes ARE the objects that were flattened (a shallow copy of the source)
                src = frozenset().union(*[flat(arg_orig[id(a)]) for a in c.args]) if c.args else frozenset()
                src = frozenset(o for o in src if o[0] not in ("fresh", "scalar"))
                return frozenset({("shallow", src)}) if src else FRESH
            if x in XNP_VIEW:
                return flat(arg_orig[id(c.args[0])]) if c.args else FRESH
            if x in XNP_FRESH:
                return FRESH
            return frozenset({("unknown", f"xnp.{x}")})
        # out= keyword
        for k in c.keywords:
            if k.arg == "out" and not (isinstance(k.value, ast.Name) and k.value.id == "out"):
                # forwarding one's own explicit `out` buffer parameter is the documented contract of out=
                self.write(c, "out=", k.value, self.origin(k.value))
        # scipy-style overwrite_a / overwrite_b / overwrite_x = True: the routine may work in place in that argument
        for k in c.keywords:
            if k.arg and k.arg.startswith("overwrite_") and isinstance(k.value, ast.Constant) and k.value.value is True:
                pos = {"a": 0, "x": 0, "ab": 0, "b": 1, "c": 1}.get(k.arg[len("overwrite_"):])
                if pos is not None and pos < len(c.args):
                    self.write(c, f"{k.arg}=True", c.args[pos], self.origin(c.args[pos]))
        if isinstance(f, ast.Name):
            cal = self.lookup(f.id) if f.id in self.env else None
            if cal is not None and any(o[0] == "winfo" for o in flat(cal)):
                return self.loop_call(c, "while_winfo")
            if f.id == "setattr" and len(c.args) >= 2:
                o = self.origin(c.args[0])
                self.write(c, "setattr", c.args[0], o, attr=ast.unparse(c.args[1]))
                return SCALAR
            if f.id in self.env:
                unfl = [o for o in flat(self.env[f.id]) if o[0] == "unflattener"]
                if unfl:
                    return frozenset({("shallow", frozenset().union(*[o[1] for o in unfl]))})
                return frozenset({("unknown", f"{f.id}(...)")})
            r = self.idx.resolve_name(self.fi.module, f.id, self.fi)
            if r is not None and r.kind == "builtin":
                if f.id in BUILTIN_SCALAR:
                    return SCALAR
                if f.id in BUILTIN_FRESH:
                    return FRESH
                if f.id in ("getattr", "vars", "next"):
                    return flat(arg_orig[id(c.args[0])]) if c.args else FRESH
                return frozenset({("unknown", f"{f.id}()")})
        if isinstance(f, ast.Attribute):
            recv_o = self.origin(f.value)
            # object.__new__(cls)
            if ast.unparse(f) in ("object.__new__", "super().__new__"):
                return FRESH
            rf = self.idx.resolve_expr(self.fi.module, f, self.fi)
            is_function = rf is not None and rf.kind in ("funcs", "class", "external", "module")
            if not is_function and (f.attr in MUTATING_METHODS or (f.attr.endswith("_") and not f.attr.startswith("_") and len(f.attr) > 2)):
                self.write(c, f"method .{f.attr}()", f.value, recv_o)
                return flat(recv_o) if f.attr in ("setdefault", "pop") else SCALAR
        # cola callee?
        callees = self.resolve_callees(c)
        if callees and isinstance(f, ast.Attribute) and f.attr == "flatten" and not c.args and all(cal[0].cls is not None and cal[0].name == "flatten" for cal in callees):
            # LinearOperator.flatten(): the operator's own leaves and a function that rebuilds a shallow copy around given leaves
            # (the protocol itself is checked by C18 flatten-protocol)
            src = frozenset(o for o in flat(self.origin(f.value)) if o[0] not in ("fresh", "scalar"))
            if src:
                return frozenset({("tuple", (src, frozenset({("unflattener", src)})))})
        if callees:
            return self.apply_callees(c, callees, arg_orig)
        if isinstance(f, ast.Attribute):
            recv_o = self.origin(f.value)
            if f.attr in METHOD_FRESH:
                return FRESH
            if f.attr in METHOD_VIEW:
                return flat(recv_o) | (FRESH if f.attr in ("to_dense", "to") else frozenset())
            r = self.idx.resolve_expr(self.fi.module, f, self.fi)
            if r is not None and r.kind == "external":
                if r.val.rsplit(".", 1)[-1] in EXTERNAL_MAY_ALIAS and c.args:
                    return flat(arg_orig[id(c.args[0])]) | FRESH  # np.asarray-style: the argument itself when no conversion is needed
                return FRESH  # numpy / scipy / torch library calls allocate their results
            return frozenset({("unknown", f".{f.attr}()")})
        r = self.idx.resolve_expr(self.fi.module, f, self.fi)
        if r is not None and r.kind == "class":
            return FRESH
        if r is not None and r.kind == "external":
            return FRESH
        return frozenset({("unknown", ast.unparse(f)[:30] + "()")})

    def resolve_callees(self, c):
        """-> list of (FuncInfo, skip_self: bool, receiver expr or None)"""
        f = c.func
        idx = self.idx
        out = []
        r = idx.resolve_expr(self.fi.module, f, self.fi) if not (isinstance(f, ast.Name) and f.id in self.env) else None
        if r is not None and r.kind == "funcs":
            fis = r.val
            name = fis[-1].name
            if any(getattr(x, "rule", None) is not None for x in fis) and name in idx.rules:
                return [(rule.func, False, None) for rule in idx.rules[name] if rule.kind == "rule"]
            return [(fis[-1], False, None)]
        if r is not None and r.kind == "class":
            init = idx.find_method(r.val, "__init__")
            return [(init, True, None)] if init is not None else []
        if isinstance(f, ast.Attribute):
            name = f.attr
            if isinstance(f.value, ast.Call) and isinstance(f.value.func, ast.Name) and f.value.func.id == "super" and self.fi.enc_cls is not None:
                for base in idx.mro(self.fi.enc_cls)[1:]:
                    if name in base.methods:
                        return [(base.methods[name], True, ast.Name(id="self", ctx=ast.Load()))]
                return []
            if name.startswith("__"):
                return []
            if isinstance(f.value, ast.Name) and f.value.id == "self" and self.fi.enc_cls is not None:
                m = idx.find_method(self.fi.enc_cls, name)
                if m is not None:
                    out = [(m, True, f.value)]
                    for sub in idx.subclasses(self.fi.enc_cls.name, strict=True):
                        if name in sub.methods:
                            out.append((sub.methods[name], True, f.value))
                    return out
            if name in self.own.methods_by_name and name not in METHOD_FRESH | {"reshape", "conj", "T", "squeeze", "transpose", "view"}:
                ms = [m for m in self.own.methods_by_name[name] if m.cls is not None and m.cls.parent_fn is None]
                # receiver class unknown: methods of that name in any cola class; only meaningful when the
                # receiver is something the caller may own
                ro = flat(self.origin(f.value))
                if ms and name not in MUTATING_METHODS and any(o[0] in ("param", "self", "global", "fresh") for o in ro):
                    return [(m, True, f.value) for m in ms]
        return out

    def apply_callees(self, c, callees, arg_orig):
        ret = set()
        for callee, skip_self, recv in callees:
            if id(callee.node) in self.own.excluded:
                continue
            summ = self.own.analyse(callee)
            params = callee.params
            has_self = bool(params) and params[0] in ("self", "cls") and callee.cls is not None
            b = df.bind_call(c, params, skip_first=has_self and (skip_self or recv is not None or True))
            porig = {}
            for p, e in b.items():
                if p.startswith("*"):
                    continue
                porig[p] = arg_orig.get(id(e)) or self.origin(e)
            if has_self and recv is not None:
                porig[params[0]] = self.origin(recv)
            elif has_self:
                porig[params[0]] = FRESH  # constructor: the new object
            # **self.__dict__ / **alg.__dict__: every parameter not bound otherwise receives a field of that object
            for e in b.get("**", []):
                if isinstance(e, ast.Attribute) and e.attr == "__dict__":
                    base_o = flat(self.origin(e.value))
                    allp = callee.params + [a.arg for a in callee.node.args.kwonlyargs]
                    for p in allp:
                        if p in porig or (has_self and p == params[0]):
                            continue
                        fo = set()
                        for o in base_o:
                            if o[0] == "param" and o[1] == "self":
                                fo.add(("self", p))
                            elif o[0] in ("param", "self", "global"):
                                fo.add(("field", f"{o[1]}.{p}"))
                        if fo:
                            porig[p] = frozenset(fo)
            if summ is None:
                ret.add(("unknown", f"recursive {callee.short}"))
                continue
            self.res.calls_out.append((c, callee, porig))
            for p in summ.param_writes:
                o = porig.get(p)
                if o is None:
                    continue
                if has_self and p == params[0]:
                    continue  # writes to the receiver are judged where they occur (operator-mutation rule)
                self.write(c, f"call {callee.short}(writes {p})", b.get(p) if p in b else recv, o, via=callee)
            # return origins substituted
            for o in flat(summ.ret):
                if o[0] == "param":
                    ret |= flat(porig.get(o[1], frozenset({("unknown", f"arg {o[1]}")})))
                elif o[0] == "self":
                    ret |= flat(porig.get(params[0], FRESH)) if has_self else {o}
                else:
                    ret.add(o)
            if summ.ret and any(o[0] == "tuple" for o in summ.ret) and len(callees) == 1:
                # keep tuple structure for single callees
                def subst(orig):
                    out = set()
                    for o in orig:
                        if o[0] == "tuple":
                            out.add(("tuple", tuple(subst(x) for x in o[1])))
                        elif o[0] == "param":
                            out |= porig.get(o[1], frozenset({("unknown", f"arg {o[1]}")}))
                        elif o[0] == "self" and has_self:
                            out |= porig.get(params[0], FRESH)
                        else:
                            out.add(o)
                    return frozenset(out)
                return subst(summ.ret)
        return frozenset(ret) if ret else FRESH

    def loop_call(self, c, kind):
        from sa import loop as lp
        names = ["lower", "upper", "body_fun", "init_val"] if kind == "for_loop" else ["cond_fun", "body_fun", "init_val"]
        b = df.bind_call(c, names)
        init = b.get("init_val")
        io = self.origin(init) if init is not None else frozenset({("unknown", "loop init")})
        body = lp._fn_of(self.idx, self.fi, b.get("body_fun")) if b.get("body_fun") is not None else None
        cond = lp._fn_of(self.idx, self.fi, b.get("cond_fun")) if b.get("cond_fun") is not None else None
        state = io
        last_body = None
        for _ in range(3):
            new = set(state)
            for fn in (body, cond):
                if fn is None or isinstance(fn, ast.Lambda):
                    continue
                ps = fn.params
                if not ps:
                    continue
                sp = ps[-1] if kind == "for_loop" and fn is body else ps[0]
                env0 = dict(self.env)
                sub = self.own.analyse(fn, env0={**env0, "__state__": state, "__state_param__": sp})
                if sub is None:
                    continue
                # writes inside the loop functions are recorded with the carried state as origin
                self.res.sites = [s for s in self.res.sites if s.fi is not fn]
                for s in sub.sites:
                    self.res.sites.append(s)
                own_params = set(fn.params)
                for p, whys in sub.param_writes.items():
                    if p in own_params:
                        continue
                    self.res.param_writes.setdefault(p, []).extend(whys)
                for a_, whys in sub.self_writes.items():
                    self.res.self_writes.setdefault(a_, []).extend(whys)
                self.own.inlined.add(id(fn.node))
                if fn is body:
                    def subst(orig):
                        out = set()
                        for o in orig:
                            if o[0] == "tuple":
                                out.add(("tuple", tuple(subst(x) for x in o[1])))
                            elif o[0] == "param" and o[1] == sp:
                                out |= state
                            elif o[0] == "param":
                                out.add(("scalar", ))
                            else:
                                out.add(o)
                        return frozenset(out)
                    last_body = subst(sub.ret)
                    new |= last_body
            new = merge_tuples(frozenset(new))
            if new == state:
                break
            state = new
        if id(c) in self.own.nonempty_loops and last_body is not None:
            return merge_tuples(last_body)
        return state

    # ---- write sites
    def write(self, node, kind, target, orig, via=None, attr=None):
        if any(o[0] == "shallow" for o in orig):
            orig = frozenset(("fresh", ) if o[0] == "shallow" else o for o in orig)
        ttext = ast.unparse(target)[:40] if target is not None else "?"
        site = WriteSite(self.fi, node, kind, ttext, orig, detail=attr or "")
        site.via = via
        self.res.sites.append(site)
        for o in flat(orig):
            self._attribute_write(node, o, f"{kind} on `{ttext}`", attr)

    def _attribute_write(self, node, o, why, attr):
        if o[0] == "param":
            owner = self._owner_of_param(o[1])
            if owner is self.fi or True:
                self.res.param_writes.setdefault(o[1], []).append((why, self.idx.loc(self.fi.module, node)))
        elif o[0] == "self":
            self.res.self_writes.setdefault(o[1], []).append((why, self.idx.loc(self.fi.module, node)))
        elif o[0] == "field":
            base = o[1].split(".", 1)[0]
            self.res.param_writes.setdefault(base, []).append((why + f" (field {o[1]})", self.idx.loc(self.fi.module, node)))

    # ---- statements
    def block(self, stmts):
        for st in stmts:
            self.stmt(st)

    def stmt(self, st):
        if isinstance(st, (ast.FunctionDef, ast.AsyncFunctionDef)):
            return  # analysed on demand (loop bodies) and as separate functions by the driver
        if isinstance(st, ast.ClassDef):
            return
        if isinstance(st, ast.Return):
            if st.value is not None:
                self.ret |= self.origin(st.value)
            else:
                self.ret |= SCALAR
            return
        if isinstance(st, ast.Assign):
            o = self.origin(st.value)
            for t in st.targets:
                self.assign_target(t, o, st)
            return
        if isinstance(st, ast.AnnAssign):
            if st.value is not None:
                self.assign_target(st.target, self.origin(st.value), st)
            return
        if isinstance(st, ast.AugAssign):
            vo = self.origin(st.value)
            t = st.target
            if isinstance(t, ast.Name):
                to = self.lookup(t.id)
                if flat(to) <= {("scalar", )}:
                    self.env[t.id] = SCALAR
                    return
                self.write(st, f"augmented assignment ({type(st.op).__name__})", t, to)
            elif isinstance(t, ast.Subscript):
                self.write(st, "augmented subscript store", t.value, self.origin(t.value))
            elif isinstance(t, ast.Attribute):
                self.write(st, "augmented attribute store", t.value, self.origin(t.value), attr=t.attr)
            return
        if isinstance(st, ast.Delete):
            for t in st.targets:
                if isinstance(t, ast.Subscript):
                    self.write(st, "del subscript", t.value, self.origin(t.value))
                elif isinstance(t, ast.Name):
                    self.env.pop(t.id, None)
            return
        if isinstance(st, ast.Expr):
            self.origin(st.value)
            return
        if isinstance(st, ast.If):
            self.origin(st.test)
            e0 = dict(self.env)
            self.block(st.body)
            e1 = self.env
            self.env = dict(e0)
            self.block(st.orelse)
            self.env = join_env(e1, self.env)
            return
        if isinstance(st, (ast.For, ast.AsyncFor)):
            it = self.origin(st.iter)
            for _ in range(2):
                self.bind(st.target, elements_of(it))
                e0 = dict(self.env)
                n_sites = len(self.res.sites)
                self.block(st.body)
                self.env = join_env(e0, self.env)
                if _ == 0:
                    del self.res.sites[n_sites:]  # second pass records the sites with the joined environment
            self.block(st.orelse)
            return
        if isinstance(st, ast.While):
            for _ in range(2):
                self.origin(st.test)
                e0 = dict(self.env)
                n_sites = len(self.res.sites)
                self.block(st.body)
                self.env = join_env(e0, self.env)
                if _ == 0:
                    del self.res.sites[n_sites:]
            self.block(st.orelse)
            return
        if isinstance(st, ast.Try):
            e0 = dict(self.env)
            self.block(st.body)
            e1 = dict(self.env)
            for h in st.handlers:
                self.env = join_env(e0, e1)
                self.block(h.body)
                e1 = join_env(e1, self.env)
            self.env = e1
            self.block(st.orelse)
            self.block(st.finalbody)
            return
        if isinstance(st, (ast.With, ast.AsyncWith)):
            for it in st.items:
                o = self.origin(it.context_expr)
                if it.optional_vars is not None:
                    self.bind(it.optional_vars, o)
            self.block(st.body)
            return
        if isinstance(st, ast.Match):
            so = self.origin(st.subject)
            e0 = dict(self.env)
            acc = None
            for case in st.cases:
                self.env = dict(e0)
                for n in ast.walk(case.pattern):
                    if isinstance(n, (ast.MatchAs, ast.MatchStar)) and n.name:
                        self.env[n.name] = flat(so)
                self.block(case.body)
                acc = self.env if acc is None else join_env(acc, self.env)
            self.env = join_env(acc, e0) if acc else e0
            return
        if isinstance(st, (ast.Assert, ast.Raise)):
            for sub in ast.iter_child_nodes(st):
                if isinstance(sub, ast.expr):
                    self.origin(sub)
            return
        # import, pass, global, nonlocal, break, continue
        return

    def assign_target(self, t, o, st):
        if isinstance(t, (ast.Name, ast.Tuple, ast.List)):
            if isinstance(t, (ast.Tuple, ast.List)) and any(isinstance(e, (ast.Attribute, ast.Subscript)) for e in t.elts):
                for i, e in enumerate(t.elts):
                    sub = frozenset()
                    for x in o:
                        if x[0] == "tuple" and i < len(x[1]):
                            sub |= x[1][i]
                    self.assign_target(e, sub or flat(o), st)
                return
            self.bind(t, o)
        elif isinstance(t, ast.Subscript):
            self.write(st, "subscript store", t.value, self.origin(t.value))
        elif isinstance(t, ast.Attribute):
            self.write(st, "attribute store", t.value, self.origin(t.value), attr=t.attr)
        elif isinstance(t, ast.Starred):
            self.assign_target(t.value, o, st)


def join_env(a, b):
    out = {}
    for k in set(a) | set(b):
        if k in a and k in b:
            out[k] = merge_tuples(a[k] | b[k]) if not isinstance(a[k], str) else a[k]
        else:
            out[k] = a.get(k, b.get(k))
    return out


def merge_tuples(orig):
    """merge tuple origins of equal length element-wise"""
    if isinstance(orig, str):
        return orig
    tup = [o for o in orig if o[0] == "tuple"]
    if len(tup) <= 1:
        return orig
    rest = frozenset(o for o in orig if o[0] != "tuple")
    by_len = {}
    for t in tup:
        by_len.setdefault(len(t[1]), []).append(t)
    out = set(rest)
    for n, ts in by_len.items():
        elts = []
        for i in range(n):
            e = frozenset()
            for t in ts:
                e |= t[1][i]
            elts.append(merge_tuples(e))
        out.add(("tuple", tuple(elts)))
    return frozenset(out)
