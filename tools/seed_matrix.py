#!/venv/bin/python
"""apply every seeded change in /verif/seeded (or a given dir) to /repo in turn, run all checks, record which fire; always reverts"""
import json, os, subprocess, sys, tempfile, shutil
VERIF = '/verif'
base = sys.argv[1] if len(sys.argv) > 1 else os.path.join(VERIF, 'seeded')
props = sorted(f[:-3] for f in os.listdir(os.path.join(VERIF, 'props')) if f.startswith('C') and f.endswith('.py'))
out = {}
assert subprocess.run(['git', '-C', '/repo', 'diff', '--quiet']).returncode == 0, 'repo dirty'
import re
pat = re.compile(sys.argv[2]) if len(sys.argv) > 2 else None
for sid in sorted(os.listdir(base)):
    if pat is not None and not pat.search(sid):
        continue
    d = os.path.join(base, sid)
    patch = os.path.join(d, 'patch.diff')
    if not os.path.exists(patch):
        continue
    try:
        if json.load(open(os.path.join(d, 'meta.json'))).get('neutralised_by_fix'):
            out[sid] = 'NEUTRALISED BY FIX ' + json.load(open(os.path.join(d, 'meta.json')))['neutralised_by_fix']
            print(sid, out[sid])
            continue
    except (OSError, ValueError):
        pass
    if subprocess.run(['git', '-C', '/repo', 'apply', '--check', patch]).returncode != 0:
        out[sid] = 'PATCH DOES NOT APPLY'
        continue
    subprocess.run(['git', '-C', '/repo', 'apply', patch], check=True)
    ev = tempfile.mkdtemp(prefix='seedev')
    fired = {}
    try:
        from concurrent.futures import ThreadPoolExecutor
        with ThreadPoolExecutor(16) as ex:
            results = list(ex.map(lambda p: (p, subprocess.run([os.path.join(VERIF, 'check'), p, '--evidence-dir', os.path.join(ev, p)], capture_output=True, text=True)), props))
        for p, r in results:
            keys = [l.split(':')[0][len('REFUTED '):] for l in r.stdout.splitlines() if l.startswith('REFUTED ')]
            if r.returncode == 1 and keys:
                fired[p] = keys[:4]
            elif r.returncode == 2:
                fired[p] = ['(exit 2: analysis incomplete)']
    finally:
        subprocess.run(['git', '-C', '/repo', 'checkout', '--', '.'], check=True)
        shutil.rmtree(ev, ignore_errors=True)
    out[sid] = fired
    print(sid, json.dumps(fired))
mpath = os.path.join(base, 'detection_matrix.json')
if pat is None:
    json.dump(out, open(mpath, 'w'), indent=1)
elif '--merge' in sys.argv:
    # a round added later: only the matched seeds are re-run, the rest of the matrix is kept
    full = json.load(open(mpath))
    full.update(out)
    json.dump(dict(sorted(full.items())), open(mpath, 'w'), indent=1)
