"""Scalar / vector TERM evaluator for rules that return numbers (slogdet pairs, diag vectors, traces).

values:  ('num', v) ('ssym', n) ('vec', n)  ('abs', x) ('log', x) ('conj', x) ('real', x)
         ('mul', (..)) ('add', (..)) ('inv', x) ('pow', b, e) ('mod', a, b)
         ('prod', v) ('sum', v)                       reductions of a vector
         ('sld', i, T)                                component i (0 sign, 1 logabs) of slogdet(T)
         ('famlist', body) ('fprod', body) ('fsum', body)   families over the factors; body mentions ('var',)
         ('size', x) ('mult', x) ('dim', n)  ('tuple', (..)) ('opaque', why)
"""
import ast

from sa import dataflow as df
from sa.absint import AbsInt

VAR = ("var", )


def show(t):
    if not isinstance(t, tuple):
        return str(t)
    k = t[0]
    if k == "num":
        return str(t[1])
    if k in ("ssym", "vec", "dim"):
        return t[1]
    if k == "var":
        return "M"
    if k in ("abs", "log", "conj", "real", "prod", "sum", "inv", "size", "mult", "exp", "sqrt", "diagof", "trace", "len"):
        return f"{k}({show(t[1])})"
    if k == "mul":
        return "*".join(show(x) for x in t[1])
    if k == "add":
        return "(" + " + ".join(show(x) for x in t[1]) + ")"
    if k == "pow":
        return f"{show(t[1])}**({show(t[2])})"
    if k == "mod":
        return f"({show(t[1])} % {show(t[2])})"
    if k == "floordiv":
        return f"({show(t[1])} // {show(t[2])})"
    if k == "sld":
        return f"slogdet({show(t[2])})[{t[1]}]"
    if k == "famlist":
        return f"[{show(t[1])} for M in Ms]"
    if k == "filtered":
        return f"{show(t[2])} if {t[1]}"
    if k == "fprod":
        return f"Π[{show(t[1])}]"
    if k == "fsum":
        return f"Σ[{show(t[1])}]"
    if k == "tuple":
        return "(" + ", ".join(show(x) for x in t[1]) + ")"
    if k == "opaque":
        return f"?{t[1]}?"
    if k == "join":
        return " | ".join(show(x) for x in t[1])
    return str(t)


def has_opaque(t):
    if isinstance(t, tuple):
        if t and t[0] == "opaque":
            return True
        return any(has_opaque(x) for x in t[1:])
    if isinstance(t, frozenset):
        return any(has_opaque(x) for x in t)
    return False


def opaque_text(t):
    if isinstance(t, tuple):
        if t and t[0] == "opaque":
            return t[1]
        for x in t[1:]:
            r = opaque_text(x)
            if r:
                return r
    return None


def mentions(t, what):
    if t == what:
        return True
    if isinstance(t, tuple):
        return any(mentions(x, what) for x in t[1:])
    return False


def snorm(t):
    if not isinstance(t, tuple):
        return t
    k = t[0]
    if k in ("num", "ssym", "vec", "var", "dim", "opaque"):
        if k == "num" and isinstance(t[1], float) and t[1] == int(t[1]):
            return ("num", int(t[1]))
        return t
    if k == "join":
        return ("join", frozenset(snorm(x) for x in t[1]))
    if k == "tuple":
        return ("tuple", tuple(snorm(x) for x in t[1]))
    if k == "floordiv":
        # sizes divide their product exactly: N // n == N / n
        return snorm(("mul", (t[1], ("inv", t[2]))))
    if k == "mul":
        out = []
        for x in t[1]:
            x = snorm(x)
            if x[0] == "mul":
                out += list(x[1])
            else:
                out.append(x)
        res = []
        for x in out:
            inv = x[1] if x[0] == "inv" else ("inv", x)
            if inv in res:
                res.remove(inv)
            else:
                res.append(x)
        val = 1
        rest = []
        for x in res:
            if x[0] == "num":
                val = val * x[1]
            elif x[0] == "inv" and x[1][0] == "num" and x[1][1] != 0:
                val = val / x[1][1]
            else:
                rest.append(x)
        if isinstance(val, float) and val == int(val):
            val = int(val)
        rest = sorted(rest, key=repr)
        if val != 1:
            rest = [("num", val)] + rest
        if not rest:
            return ("num", 1)
        return rest[0] if len(rest) == 1 else ("mul", tuple(rest))
    if k == "add":
        out = []
        for x in t[1]:
            x = snorm(x)
            if x[0] == "add":
                out += list(x[1])
            else:
                out.append(x)
        val = 0
        rest = []
        for x in out:
            if x[0] == "num":
                val += x[1]
            else:
                rest.append(x)
        rest = sorted(rest, key=repr)
        if val != 0:
            rest = [("num", val)] + rest
        if not rest:
            return ("num", 0)
        return rest[0] if len(rest) == 1 else ("add", tuple(rest))
    if k == "inv":
        x = snorm(t[1])
        if x[0] == "inv":
            return x[1]
        if x[0] == "num" and x[1] != 0:
            v = 1 / x[1]
            return ("num", int(v) if v == int(v) else v)
        return ("inv", x)
    if k == "pow":
        b, e = snorm(t[1]), snorm(t[2])
        if e == ("num", 1):
            return b
        if e == ("num", 0):
            return ("num", 1)
        if b[0] == "num" and e[0] == "num":
            try:
                return snorm(("num", b[1]**e[1]))
            except Exception:  # noqa: BLE001
                pass
        return ("pow", b, e)
    if k in ("fprod", "fsum", "famlist"):
        inner = snorm(t[1])
        # dropping Unitary factors from a SUM OF LOG-MAGNITUDES drops zeros only (|det U| = 1); nothing of the kind holds for the signs
        if k == "fsum" and inner[0] == "filtered" and inner[1] in ("notM.isa(Unitary)", "notM.isa(cola.Unitary)") and inner[2] == ("sld", 1, VAR):
            inner = inner[2]
        return (k, inner) + t[2:]
    return (k, ) + tuple(snorm(x) if isinstance(x, tuple) else x for x in t[1:])


def alternatives(t):
    if isinstance(t, tuple) and t and t[0] == "join":
        out = []
        for x in t[1]:
            out += alternatives(x)
        return out
    return [t]


def equal(got, want):
    g, w = snorm(got), snorm(want)
    res = True
    for a in alternatives(g):
        if has_opaque(a):
            res = None if res is True else res
            continue
        if a != w:
            return False
    return res


REVVAR = ("revvar", )  # the family element at the mirrored position (reversed(...)) -- differs from VAR unless the fold is symmetric


def _mentions(t, x):
    if t == x:
        return True
    return isinstance(t, tuple) and any(_mentions(y, x) for y in t)


def _subst(t, x, y):
    if t == x:
        return y
    if isinstance(t, tuple):
        return tuple(_subst(z, x, y) for z in t)
    return t


class ScalarEval(AbsInt):
    def unknown(self, why=""):
        return ("opaque", why)

    def const(self, node):
        if isinstance(node.value, (int, float, complex)) and not isinstance(node.value, bool):
            return ("num", node.value)
        return ("pyconst", repr(node.value))

    def param(self, fi, name):
        return ("ssym", name)

    def self_attr(self, fi, attr, node):
        return ("ssym", f"self.{attr}")

    def join(self, vals):
        flat = []
        for v in vals:
            for a in alternatives(v):
                if a not in flat:
                    flat.append(a)
        if len(flat) == 1:
            return flat[0]
        tups = [v for v in flat if v[0] == "tuple"]
        if tups and len(tups) == len(flat) and len({len(t[1]) for t in tups}) == 1:
            return ("tuple", tuple(self.join([t[1][i] for t in tups]) for i in range(len(tups[0][1]))))
        return ("join", frozenset(flat))

    def alternatives(self, v):
        return alternatives(v)

    def element_of(self, v, i):
        if v[0] == "famlist" and i == "*":
            return v[1]
        if v[0] == "sldpair" and isinstance(i, int):
            return ("sld", i, v[1])
        if v[0] == "zipfam" and i == "*":
            return ("tuple", tuple(v[1]))
        if v[0] == "list" and isinstance(i, int) and -len(v[1]) <= i < len(v[1]):
            return v[1][i]
        return ("opaque", "element")

    def attribute(self, base, attr, node, ctx):
        if base[0] == "ssym":
            n = base[1]
            if attr in ("c", ):
                return ("ssym", f"{n}.c")
            if attr in ("diag", ):
                return ("vec", f"{n}.diag")
            if attr == "A":
                return ("ssym", f"{n}.A")
            if attr == "Ms":
                return ("famlist", VAR)
            if attr == "multiplicities":
                return ("mults", )
            if attr == "shape":
                return ("shape", base)
            if attr in ("xnp", "dtype", "device", "perm", "vec", "beta"):
                return ("ssym", f"{n}.{attr}")
        if base == VAR and attr == "shape":
            return ("shape", VAR)
        if attr in ("real", ):
            return ("real", base)
        return ("opaque", f".{attr}")

    def subscript(self, base, node, ctx):
        sl = node.slice
        if base[0] == "shape":
            return ("size", base[1]) if base[1] == VAR else ("dim", f"{base[1][1]}.n")
        if base[0] == "tuple" and isinstance(sl, ast.Constant) and isinstance(sl.value, int):
            return self.index(base, sl.value)
        if base[0] == "sldpair" and isinstance(sl, ast.Constant):
            return ("sld", sl.value, base[1])
        if base[0] == "famlist":
            iv = self.ev(sl, ctx)
            if iv == ("idxvar", ):
                return base[1]
        if base[0] == "mults":
            iv = self.ev(sl, ctx)
            if iv == ("idxvar", ):
                return ("mult", VAR)
        return ("opaque", ast.unparse(node)[:30])

    def binop(self, node, l, r, ctx):
        op = node.op
        if isinstance(op, ast.Mult):
            # [c] * len(<the factors>): one constant per factor
            for lst, n in ((l, r), (r, l)):
                if lst[0] == "list" and len(lst[1]) == 1 and n[0] == "len" and n[1][0] == "famlist" and n[1][1] == VAR:
                    return ("famlist", lst[1][0])
            return ("mul", (l, r))
        if isinstance(op, ast.Div):
            return ("mul", (l, ("inv", r)))
        if isinstance(op, ast.FloorDiv):
            return ("floordiv", l, r)
        if isinstance(op, ast.Add):
            return ("add", (l, r))
        if isinstance(op, ast.Sub):
            return ("add", (l, ("mul", (("num", -1), r))))
        if isinstance(op, ast.Pow):
            return ("pow", l, r)
        if isinstance(op, ast.Mod):
            return ("mod", l, r)
        return ("opaque", type(op).__name__)

    def unaryop(self, node, v, ctx):
        if isinstance(node.op, ast.USub):
            return ("mul", (("num", -1), v))
        return v

    def call_xnp(self, name, node, args, kwargs, ctx):
        if name in ("abs", "log", "conj", "exp", "sqrt"):
            return (name, args[0])
        if name == "sign":
            return ("mul", (args[0], ("inv", ("abs", args[0]))))
        if name == "prod":
            return ("prod", args[0])
        if name == "sum":
            return ("sum", args[0])
        if name == "array":
            return args[0]
        if name in ("cast", "copy"):
            return args[0]
        if name == "diag":
            return ("diagof", args[0])
        if name in ("zeros", ):
            return ("num", 0)
        if name in ("ones", ):
            return ("num", 1)
        return ("opaque", f"xnp.{name}")

    def call_method(self, recv, name, node, args, kwargs, ctx):
        if name in ("sum", ):
            return ("sum", recv)
        if name in ("prod", ):
            return ("prod", recv)
        if name in ("conj", "conjugate"):
            return ("conj", recv)
        return ("opaque", f".{name}()")

    def call_builtin(self, name, node, args, kwargs, ctx):
        if name == "sum" and args:
            v = args[0]
            if v[0] == "famlist":
                body = v[1]
                if _mentions(body, REVVAR) and not _mentions(body, VAR):
                    body = _subst(body, REVVAR, VAR)  # a commutative fold over the mirrored list is the fold over the list
                return ("fsum", body)
        if name == "reversed" and len(args) == 1 and args[0][0] == "famlist" and len(args[0]) == 2 and not _mentions(args[0][1], REVVAR):
            # the list read from the other end: element i is the part at the mirrored position n-1-i
            return ("famlist", _subst(args[0][1], VAR, REVVAR))
        if name == "zip":
            if len(node.args) == 1 and isinstance(node.args[0], ast.Starred):
                v = args[0]
                if v[0] == "famlist" and v[1][0] == "tuple":
                    return ("tuple", tuple(("famlist", e) for e in v[1][1]))
                if v[0] == "famlist" and v[1][0] == "sldpair":
                    return ("tuple", (("famlist", ("sld", 0, v[1][1])), ("famlist", ("sld", 1, v[1][1]))))
                if v[0] == "famlist" and v[1][0] == "filtered" and v[1][2][0] == "sldpair":
                    x = v[1][2][1]
                    return ("tuple", (("famlist", ("filtered", v[1][1], ("sld", 0, x))), ("famlist", ("filtered", v[1][1], ("sld", 1, x)))))
            else:
                bodies = []
                for a in args:
                    if a[0] == "famlist":
                        bodies.append(a[1])
                    elif a[0] == "mults":
                        bodies.append(("mult", VAR))
                    else:
                        return ("opaque", "zip")
                return ("zipfam", tuple(bodies))
        if name == "len":
            return ("len", args[0])
        if name == "range" and len(args) == 1 and args[0][0] == "len":
            return ("rangelen", args[0][1])
        if name in ("abs", ):
            return ("abs", args[0])
        if name in ("float", "int", "complex"):
            return args[0]
        return ("opaque", f"{name}()")

    def call_external(self, dotted, node, args, kwargs, ctx):
        if dotted == "functools.reduce" and len(node.args) >= 2:
            # the folded operation: `lambda a, b: a * b` / `a + b`, or operator.mul / operator.add
            lam = node.args[0]
            kind = None
            if isinstance(lam, ast.Lambda) and isinstance(lam.body, ast.BinOp) and len(lam.args.args) == 2 and {lam.args.args[0].arg, lam.args.args[1].arg} == {
                    x.id for x in (lam.body.left, lam.body.right) if isinstance(x, ast.Name)}:
                kind = {ast.Mult: "fprod", ast.Add: "fsum"}.get(type(lam.body.op))
            elif isinstance(lam, (ast.Attribute, ast.Name)):
                r = self.idx.resolve_expr(ctx.fi.module, lam, ctx.fi) if ctx is not None and ctx.fi is not None else None
                kind = {"operator.mul": "fprod", "operator.add": "fsum"}.get(r.val if r is not None and r.kind == "external" else None)
            if kind and len(args) >= 3 and args[2] != ("num", 1 if kind == "fprod" else 0):
                kind = None  # an initial value that is not the neutral element of the folded operation
            if kind:
                v = args[1]
                if kind and v[0] == "famlist":
                    return (kind, v[1])
                if kind and v[0] == "list":
                    return ("mul" if kind == "fprod" else "add", tuple(v[1]))
        if dotted == "math.prod" and len(args) == 1:
            v = args[0]
            if v[0] == "famlist":
                return ("fprod", v[1])
            if v[0] == "list":
                return ("mul", tuple(v[1]))
        return ("opaque", dotted)

    def call_dispatch(self, fname, node, args, kwargs, ctx):
        if fname == "slogdet":
            return ("sldpair", args[0])
        if fname == "cholesky":
            return ("ssym", f"chol({show(args[0])})")
        if fname == "plu":
            return ("tuple", tuple(("ssym", f"plu({show(args[0])})[{i}]") for i in range(3)))
        if fname == "trace":
            return ("trace", args[0])
        if fname == "log":
            return ("ssym", f"logm({show(args[0])})")
        if fname == "diag":
            return ("vec", f"diag({show(args[0])})")
        return ("opaque", f"{fname}()")

    def other(self, node, ctx):
        if isinstance(node, (ast.ListComp, ast.GeneratorExp)) and len(node.generators) == 1 and len(node.generators[0].ifs) <= 1:
            g = node.generators[0]
            pred = None
            if g.ifs and isinstance(g.target, ast.Name):
                # a filtered family: the predicate is kept as text over the family variable M
                t = ast.parse(ast.unparse(g.ifs[0]), mode="eval").body
                for n_ in ast.walk(t):
                    if isinstance(n_, ast.Name) and n_.id == g.target.id:
                        n_.id = "M"
                pred = ast.unparse(t).replace(" ", "")
            elif g.ifs:
                return ("opaque", "filtered comprehension")
            it = self.ev(g.iter, ctx)
            env = dict(ctx.env)
            if it[0] == "famlist" and isinstance(g.target, ast.Name):
                env[g.target.id] = it[1]
            elif it[0] == "rangelen" and isinstance(g.target, ast.Name):
                env[g.target.id] = ("idxvar", )
            elif it[0] == "zipfam" and isinstance(g.target, ast.Tuple) and len(g.target.elts) == len(it[1]):
                for t_, b in zip(g.target.elts, it[1]):
                    if isinstance(t_, ast.Name):
                        env[t_.id] = b
            else:
                return ("opaque", "comprehension over " + show(it))
            body = self.ev(node.elt, AbsInt.Ctx(ctx.fi, env, ctx.depth + 1))
            if pred is not None:
                if it[0] == "famlist" and it[1] == VAR and body == VAR:
                    return ("famlist", VAR, pred)  # the operand's parts themselves, filtered: [M for M in A.Ms if p(M)]
                return ("famlist", ("filtered", pred, body))
            if it[0] == "famlist" and len(it) == 3:
                return ("famlist", ("filtered", it[2], body))
            return ("famlist", body)
        if isinstance(node, ast.List):
            return ("list", tuple(self.ev(x, ctx) for x in node.elts))
        if isinstance(node, ast.MatMult):
            return ("opaque", "matmul")
        return ("opaque", type(node).__name__)

    def ev(self, e, ctx):
        if isinstance(e, ast.BinOp) and isinstance(e.op, ast.MatMult):
            return ("ssym", ast.unparse(e).replace(" ", ""))
        if isinstance(e, ast.Tuple):
            return ("tuple", tuple(self.ev(x, ctx) for x in e.elts))
        return super().ev(e, ctx)
