"""C14 — Lanczos (DESIGN.md section 4, C14): cap, symmetric T by construction with non-negative
off-diagonal, normalised first column (copied, not written), sesquilinear projection convention of the
re-orthogonalisation, ascending paired Ritz pairs, consistent trimming."""
import ast

from sa import dataflow as df
from sa import loop as lp
from sa.krylov import buffer_dtype_obligations, closure, first_column_obligation, is_norm_expr, nospace, norm_written, projection_convention


def fn(idx, rep, name, module_suffix="lanczos"):
    fs = [f for f in idx.funcs_named(name) if f.module.name.endswith(module_suffix)]
    if not fs:
        rep.missing_anchor(f"function {name}")
        return None
    return fs[-1]


def run(idx, rep, tier):
    lanczos = fn(idx, rep, "lanczos")
    fact = fn(idx, rep, "lanczos_fact")
    init = fn(idx, rep, "init_lanczos")
    eigs = fn(idx, rep, "lanczos_eigs")
    if not all((lanczos, fact, init, eigs)):
        return
    # ---- cap: max_iters <- min(max_iters, n); cond contains i <= max_iters; i from 1 by +1
    asg = df.assignments(lanczos.node)
    clip = [v for v, p, st in asg.get("max_iters", []) if isinstance(v, ast.Call) and nospace(v.func) == "min"]
    a = lanczos.params[0]
    ok = bool(clip) and "max_iters" in [nospace(x) for x in clip[0].args] and any(nospace(x).replace("[-1]", "[0]").replace("[-2]", "[0]").replace("[1]", "[0]") == f"{a}.shape[0]" for x in clip[0].args)
    rep.decide(ok, "loop-cap", "lanczos:clip", f"max_iters is clipped to `{ast.unparse(clip[0]) if clip else '-'}`" + ("" if ok else f"; required min(max_iters, {a}.shape[0])"), detail="" if ok else "clip",
               locs=[idx.loc(lanczos.module, lanczos.node)])
    loops = lp.find_loops(idx, fact)
    if not loops:
        rep.missing_anchor("while loop of lanczos_fact")
    else:
        l = loops[0]
        cert = lp.cap_certificate(idx, l)
        if cert["ok"] is not True:
            rep.decide(cert["ok"], "loop-cap", "lanczos_fact:loop", cert["why"], detail="no-cap" if cert["ok"] is False else "", locs=[idx.loc(fact.module, l.call)])
        else:
            okc, why = lp.counter_step(idx, l, cert["counter_slot"])
            # initial counter comes from init_lanczos (the caller passes its result as init_val)
            rets = [r.value for r in df.returns(init.node) if isinstance(r.value, ast.Tuple)]
            start = None
            if rets:
                e = rets[0].elts[cert["counter_slot"]]
                vals = [v for v, p, st in df.assignments(init.node).get(e.id, [])] if isinstance(e, ast.Name) else [e]
                if vals and isinstance(vals[0], ast.Call) and vals[0].args and isinstance(vals[0].args[0], ast.Constant):
                    start = vals[0].args[0].value
                elif vals and isinstance(vals[0], ast.Constant):
                    start = vals[0].value
            # i starts at 1 and the test is i <= max_iters: exactly max_iters steps; i from 0 needs <
            consistent = (start == 1 and not cert["strict"]) or (start == 0 and cert["strict"])
            v = okc if okc is not True else (True if consistent else (False if start in (0, 1) else None))
            rep.decide(v, "loop-cap", "lanczos_fact:loop", f"cond contains `{cert['expr']}`; {why}; counter starts at {start}" +
                       ("" if v is not False or okc is False else ": with this start value the comparison allows one step more or less than max_iters"),
                       detail="" if v is not False else "off-by-one", locs=[idx.loc(fact.module, l.call)])
    # ---- T symmetric by construction
    n_tri = 0
    for c in df.calls(lanczos.node):
        f = nospace(c.func)
        args = None
        if f == "Tridiagonal":
            args = [nospace(x) for x in c.args]
        elif f.endswith("vmap(Tridiagonal)"):
            args = [nospace(x) for x in c.args]
        if args and len(args) == 3:
            n_tri += 1
            ok = args[0] == args[2]
            rep.decide(ok, "symmetric-T", f"lanczos:Tridiagonal#{n_tri}", f"T = Tridiagonal({', '.join(args)})" + ("" if ok else ": lower and upper off-diagonal must be the same array"),
                       detail="" if ok else "asymmetric", locs=[idx.loc(lanczos.module, c)])
    if not n_tri:
        rep.missing_anchor("Tridiagonal construction in lanczos")
    # which buffer is the off-diagonal?  the one handed to Tridiagonal slots 0 and 2
    # the loop body is whatever function is handed to the loop runner as body_fun (not recognised by its name)
    _l = [l_ for l_ in lp.find_loops(idx, fact) if l_.kind != "for"]
    body = _l[0].body if _l and not isinstance(_l[0].body, ast.Lambda) else None
    if body is None:
        rep.missing_anchor("loop body of lanczos_fact")
    else:
        writes = norm_written(body)
        # positional linkage, independent of local names: slot 0 of Tridiagonal in lanczos -> its position in the
        # unpacking of lanczos_fact's result -> the same position of the loop state unpacked in the body
        tri0 = next((c for c in df.calls(lanczos.node) if nospace(c.func) == "Tridiagonal" and len(c.args) == 3), None)
        pos = None
        if tri0 is not None and isinstance(tri0.args[0], ast.Name):
            for st in df.body_nodes(lanczos.node):
                if isinstance(st, ast.Assign) and isinstance(st.targets[0], ast.Tuple) and isinstance(st.value, ast.Call) and nospace(st.value.func) == fact.short:
                    names = [t.id if isinstance(t, ast.Name) else None for t in st.targets[0].elts]
                    if tri0.args[0].id in names:
                        pos = names.index(tri0.args[0].id)
        off_name = None
        if pos is not None and body.params:
            for st in df.body_nodes(body.node):
                if isinstance(st, ast.Assign) and isinstance(st.targets[0], ast.Tuple) and isinstance(st.value, ast.Name) and st.value.id == body.params[0] and pos < len(st.targets[0].elts):
                    t = st.targets[0].elts[pos]
                    off_name = t.id if isinstance(t, ast.Name) else None
        sub = [w for w in writes if off_name is not None and w[0] == off_name]
        if sub:
            ok = all(w[1] for w in sub)
            rep.decide(ok, "nonneg-offdiagonal", "lanczos_fact:subdiag", f"off-diagonal entries written: {[ast.unparse(w[2].args[1])[:40] for w in sub]}" + ("" if ok else ": must be norms (non-negative)"),
                       detail="" if ok else "not-norm", locs=[idx.loc(fact.module, sub[0][2])])
        else:
            rep.undecided("nonneg-offdiagonal", "lanczos_fact:subdiag", "no write into the off-diagonal buffer found")
    # ---- first column: start vector normalised, copied
    first_column_obligation(idx, rep, init, "1", "init_lanczos")
    # ---- re-orthogonalisation: projection convention
    n_proj = 0
    for f in closure(idx, fact, same_module=True):
        for ok, text, node in projection_convention(f):
            n_proj += 1
            rep.decide(ok, "projection", f"{f.short}:projection", text, detail="" if ok else "conjugate-side", locs=[idx.loc(f.module, node)])
    if not n_proj:
        rep.undecided("projection", "lanczos_fact:projection", "no Gram-Schmidt projection step recognised")
    # ---- Ritz pairs ascending and paired
    easg = df.assignments(eigs.node)
    idxn = next((n for n, vals in easg.items() for v, p, st in vals if isinstance(v, ast.Call) and nospace(v.func).endswith("argsort")), None)
    if idxn is None:
        rep.refuted("ritz-pairs", "lanczos_eigs", "Ritz values are not sorted (no argsort)", detail="unsorted", locs=[idx.loc(eigs.module, eigs.node)])
    else:
        src = nospace(eigs.node)
        vals_ok = f"[...,{idxn}]" in src or f"[{idxn}]" in src
        cols_ok = f"[:,{idxn}]" in src
        desc = any(isinstance(v, ast.Call) and nospace(v.func).endswith("argsort") and v.args and isinstance(v.args[0], ast.UnaryOp) for vals in easg.values() for v, p, st in vals)
        ok = vals_ok and cols_ok and not desc
        rep.decide(ok, "ritz-pairs", "lanczos_eigs", f"values {'permuted' if vals_ok else 'NOT permuted'} and vector columns {'permuted' if cols_ok else 'NOT permuted'} by `{idxn}`"
                   f"{' (descending!)' if desc else ' (ascending argsort)'}", detail="" if ok else "pairing", locs=[idx.loc(eigs.module, eigs.node)])
    # ---- trimming: one consistent size
    trims = {}
    for st in df.body_nodes(lanczos.node):
        if isinstance(st, ast.Assign) and isinstance(st.value, ast.Tuple) and isinstance(st.targets[0], ast.Tuple):
            for t, v in zip(st.targets[0].elts, st.value.elts):
                if isinstance(v, ast.Subscript) and isinstance(t, ast.Name):
                    last = v.slice.elts[-1] if isinstance(v.slice, ast.Tuple) else v.slice
                    if isinstance(last, ast.Slice) and last.upper is not None and last.lower is None and not isinstance(last.upper, ast.Constant):
                        trims[t.id] = nospace(last.upper)
    if trims:
        # T = Tridiagonal(off, diag, off): diag and Q cut to N, off-diagonal to N - 1, for one size variable N;
        # Q is whatever array is wrapped in Dense
        tri = [c for c in df.calls(lanczos.node) if nospace(c.func) == "Tridiagonal"]
        def root(e):
            """the array an expression selects from: `alpha[0]`, `alpha[..., :k]`, `alpha.real` -> alpha"""
            while isinstance(e, (ast.Subscript, ast.Attribute)):
                e = e.value
            return e.id if isinstance(e, ast.Name) else nospace(e)
        off, dg = (root(tri[0].args[0]), root(tri[0].args[1])) if tri else (None, None)
        dense = [c for c in df.calls(lanczos.node) if (nospace(c.func) == "Dense" or nospace(c.func).endswith("vmap(Dense)")) and c.args]
        qn = next((n for c in dense for n in df.names_in(c.args[0]) if n in trims), None)
        size = trims.get(dg)
        ok = size is not None and size.isidentifier() and trims.get(off) == f"{size}-1" and trims.get(qn) == size
        rep.decide(ok, "trimming", "lanczos:trim", f"diagonal `{dg}` cut to {trims.get(dg)}, off-diagonal `{off}` to {trims.get(off)}, basis `{qn}` to {trims.get(qn)} columns" +
                   ("" if ok else "; required N, N-1, N for one size N"), detail="" if ok else "sizes", locs=[idx.loc(lanczos.module, lanczos.node)])
    else:
        rep.undecided("trimming", "lanczos:trim", "trimming assignment not found")
    buffer_dtype_obligations(idx, rep, init, "buffer-dtype")
    # ---- the loop stops at an exact breakdown
    from sa.krylov import breakdown_stops
    _loops = lp.find_loops(idx, fact)
    _cert = lp.cap_certificate(idx, _loops[0]) if _loops else {"ok": None}
    breakdown_stops(idx, rep, fact, "breakdown-stops", f"{fact.short}:cond", _cert.get("counter_slot") if _cert.get("ok") is True else None,
                    cond=_loops[0].cond if _loops and not isinstance(_loops[0].cond, ast.Lambda) else None)
    # ---- HOMOG in the scale of the operator: floors inside the factorisation loop must scale with what they guard
    from sa.homog import krylov_floor_obligations
    krylov_floor_obligations(idx, rep, fact, init, "scale-floor")
    rep.floor("buffer-dtype", 2)
    rep.floor("loop-cap", 2)
    rep.floor("symmetric-T", 2)
    rep.floor("projection", 1)
    rep.floor("first-column", 1)
    rep.floor("ritz-pairs", 1)
    rep.explanation = ("LOOP + DEP + sign provenance on lanczos / lanczos_fact / init_lanczos / lanczos_eigs: iteration cap min(max_iters, n) with a counter from 1 tested by <=, "
                       "T built with one array in both off-diagonal slots whose entries are norms, start vector normalised into column 1 without writing the caller's array, "
                       "Gram-Schmidt coefficients conjugate the basis they are later multiplied with, Ritz values ascending with paired vector columns, consistent trimming.")
    rep.assumptions += ["orthonormality, the three-term recurrence, early termination and A Q - Q T are numerical and not decided", "the annotation of Q is C05"]
