#!/venv/bin/python
"""print the normal form (sa/normalise.py) of the functions with the given short names"""
import ast, sys
sys.path.insert(0, '/verif')
from sa.index import Index
idx = Index(sys.argv[1])
for name in sys.argv[2:]:
    for f in idx.funcs.values():
        if f.short == name or f.qual.endswith(name):
            print(f"# {f.qual}"); print(ast.unparse(f.node)); print()
