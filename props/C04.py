"""C04 — rule selection is total and unambiguous (DESIGN.md section 4, C04).

Exhaustive enumeration of the finite lattice
  function x operator kind(s) x annotation set x algorithm class x arity x configuration
against a model of the plum resolver.  REFUTED = a tuple with no rule or a tie.
"""
import ast
import itertools

from sa.oracle_domains import DOMAINS
from sa.resolver import ANNOTS, SCALAR_CLASSES, Arg, Resolver, admitted_algorithms, intrinsic_annotations

VARIANTS = [frozenset()] + [frozenset({a}) for a in ANNOTS]


def configurations(idx, tier):
    core = idx.core_modules()
    rule_mods = {r.module.name for rs in idx.rules.values() for r in rs}
    opt = [m for m in idx.optional_modules() if m in rule_mods]
    confs = [("core", frozenset(core))]
    if tier == "thorough":
        for m in opt:
            confs.append((f"core+{m.rsplit('.', 1)[-1]}", frozenset(idx.closure([m]))))
    if opt:
        confs.append(("all", frozenset(idx.closure(opt))))
    return confs


def op_kinds(idx, mods):
    return [c.name for c in idx.operator_classes() if c.module.name in mods]


def has_annotation_cond(res, fname):
    return any(r.cond is not None and res._cond_form(r) is not None for r in res.rules_of(fname))


def op_args(kinds, intr, variants):
    out = []
    for k in kinds:
        seen = set()
        for v in variants:
            s = intr.get(k, frozenset()) | v
            if s not in seen:
                seen.add(s)
                out.append(Arg(k, s))
    return out


def domain_for(kind, fname, pos, res, idx, kinds, intr, variants):
    base = kind.rstrip("?")
    if base == "OP":
        return op_args(kinds, intr, variants)
    if base == "OPARR":
        return op_args(kinds, intr, variants) + [Arg("ndarray")]
    if base == "SCALAR":
        return [Arg(c) for c in SCALAR_CLASSES]
    if base == "NUMBER":
        return [Arg("int"), Arg("float"), Arg("complex"), Arg("np.generic")]
    if base == "INT":
        return [Arg("int")]
    if base == "STR":
        return [Arg("str")]
    if base == "CALL":
        return [Arg("function")]
    if base == "ALG":
        return [Arg(a) for a in admitted_algorithms(idx, res, fname, pos)]
    raise ValueError(kind)


def derived_domain(rule, sig, res, idx, kinds, intr, variants, fname):
    """tuples accepted by the documented types of one signature of one rule"""
    ops = {c.name for c in idx.operator_classes()}
    algs = {c.name for c in idx.algorithm_classes()}
    doms = []
    for pos, atoms in enumerate(sig):
        ann = rule.node.args.args[pos].annotation if pos < len(rule.node.args.args) else None
        ann_name = getattr(ann, "id", None)
        d = []
        for t in sorted(atoms):
            if t in ops:
                d += op_args([k for k in kinds if res.sub(k, t)], intr, variants)
            elif t in algs:
                adm = admitted_algorithms(idx, res, fname, pos)
                d += [Arg(a) for a in adm if res.sub(a, t)] or [Arg(a) for a in sorted(algs) if res.sub(a, t) and a != "Algorithm"][:1]
            elif t == "Any":
                default = rule.params[pos][2]
                if ann_name == "Scalar":
                    d += [Arg(c) for c in SCALAR_CLASSES]
                elif ann is None and default is not None:
                    import ast
                    if isinstance(default, ast.Constant):
                        d += [Arg(type(default.value).__name__)]
                    else:
                        d += [Arg("ndarray")]
                else:
                    d += op_args(kinds, intr, variants) + [Arg("ndarray")]
            elif t == "Number":
                d += [Arg("int"), Arg("float"), Arg("complex"), Arg("np.generic")]
            elif t == "Callable":
                d += [Arg("function")]
            else:
                d += [Arg(t)]
        # de-duplicate, keep order
        seen, dd = set(), []
        for a in d:
            if a not in seen:
                seen.add(a)
                dd.append(a)
        doms.append(dd)
    return doms


def enumerate_function(fname, res, idx, kinds, intr, tier):
    """yields argument tuples of the admitted lattice of one function"""
    rules = res.rules_of(fname)
    if not rules:
        return
    n_op_positions = 0
    spec = DOMAINS.get(fname)
    annot_fn = has_annotation_cond(res, fname)
    seen = set()
    ab = res.abstract_of(fname)
    if spec is not None:
        n_ops = sum(1 for k in spec if k.rstrip("?") in ("OP", "OPARR"))
        variants = VARIANTS if (annot_fn or (tier == "thorough")) else VARIANTS[:1]
        if n_ops >= 2 and tier != "thorough":
            variants = VARIANTS[:1]
        required = sum(1 for k in spec if not k.endswith("?"))
        full = len(spec)
        lens = {len(s) for r in rules for s in r.sigs}
        arities = [full] if ab is not None else [n for n in range(required, full + 1) if n in lens or n == full]
        for n in arities:
            doms = [domain_for(spec[p], fname, p, res, idx, kinds, intr, variants) for p in range(n)]
            for tup in itertools.product(*doms):
                if tup not in seen:
                    seen.add(tup)
                    yield tup, "documented"
    variants = VARIANTS if (annot_fn or tier == "thorough") else VARIANTS[:1]
    for r in rules:
        if sum(1 for t in r.types if t & {c.name for c in idx.operator_classes()} or "Any" in t) >= 2 and tier != "thorough":
            v2 = VARIANTS[:1]
        else:
            v2 = variants
        sigs = r.sigs if ab is None else r.sigs[:1]
        for s in sigs:
            doms = derived_domain(r, s, res, idx, kinds, intr, v2, fname)
            size = 1
            for d in doms:
                size *= max(len(d), 1)
            if size > 400000:
                continue
            for tup in itertools.product(*doms):
                if tup not in seen:
                    seen.add(tup)
                    yield tup, "rule-documented"


def run(idx, rep, tier):
    intr = intrinsic_annotations(idx)
    confs = configurations(idx, tier)
    fnames = sorted(f for f, rs in idx.rules.items() if any(r.kind == "rule" for r in rs))
    missing = [f for f in DOMAINS if f not in idx.rules]
    for f in missing:
        rep.missing_anchor(f"dispatched function {f} (listed in oracle_domains) has no rule anywhere")
    rep.analysed["functions"] = fnames
    rep.analysed["rules"] = sum(len(rs) for rs in idx.rules.values())
    rep.analysed["signatures"] = sum(len(r.sigs) for rs in idx.rules.values() for r in rs if r.kind == "rule")
    rep.analysed["configurations"] = [c[0] for c in confs]
    rep.analysed["operator_kinds"] = [c.name for c in idx.operator_classes()]
    rep.analysed["algorithm_classes"] = [c.name for c in idx.algorithm_classes()]
    rep.analysed["intrinsic_annotations"] = {k: sorted(v) for k, v in intr.items()}
    failures = {}  # key -> dict
    winners_seen = set()
    total = nontrivial = 0
    slots = {}
    for cname, mods in confs:
        res = Resolver(idx, mods)
        kinds = op_kinds(idx, mods)
        for fname in fnames:
            rules = res.rules_of(fname)
            if not rules:
                if fname in DOMAINS and cname in ("core", "all") and any(r.module.name in mods for r in idx.rules[fname]):
                    rep.missing_anchor(f"{fname} has only an abstract declaration in configuration {cname}")
                continue
            if fname in DOMAINS:
                for p, k in enumerate(DOMAINS[fname]):
                    if k.rstrip("?") == "ALG":
                        slots[f"{fname}[{p}]"] = admitted_algorithms(idx, res, fname, p)
            for tup, origin in enumerate_function(fname, res, idx, kinds, intr, tier):
                for free, (st, win, cands, matching) in res.resolve_all(fname, tup):
                    total += 1
                    if len(matching) >= 2:
                        nontrivial += 1
                    st2, win2, _, _ = res.resolve(fname, tup, free, reverse=True)
                    order_dep = (st2 != st) or ({id(w[0]) for w in win2} != {id(w[0]) for w in win})
                    if st == "OK" and not order_dep:
                        winners_seen.add(id(win[0][0]))
                        if total % 9973 == 0:
                            rep.sample({"function": fname, "args": [repr(a) for a in tup], "configuration": cname,
                                        "matching": [m[0].role for m in matching], "winner": win[0][0].role})
                        continue
                    if order_dep:
                        key = ("order-independent", fname, tuple(sorted({c[0].role for c in cands})))
                        stmt = f"{fname}: winner depends on registration order among {sorted({c[0].role for c in cands})}"
                    elif st == "AMBIGUOUS":
                        roles = tuple(sorted({f"{w[0].role}" for w in win}))
                        key = ("unique-winner", fname, roles)
                        stmt = f"{fname}: tie between {' and '.join(roles)} (equal precedence, neither signature more specific)"
                    else:
                        opk = set(kinds)
                        pat = tuple("<any operator kind>" if a.cls in opk else a.cls for a in tup)
                        key = ("total", fname, pat)
                        stmt = f"{fname}({', '.join(pat)}): no rule applies"
                    f = failures.setdefault(key, {"stmt": stmt, "tuples": [], "locs": set(), "confs": set(), "n": 0})
                    f["n"] += 1
                    f["confs"].add(cname)
                    if key[0] == "total":
                        f.setdefault("kinds", set()).update(a.cls for a in tup if a.cls in set(kinds))
                        for r in rules:
                            f["locs"].add(r.loc)
                    if len(f["tuples"]) < 8:
                        f["tuples"].append({"args": [repr(a) for a in tup], "free_conditions": {r.role: v for r, v in free.items()},
                                            "candidates": [f"{c[0].role} precedence={c[0].precedence}{'+0.5' if c[0].cond is not None else ''} @{c[0].loc}" for c in cands]})
                    for c in (win or cands):
                        f["locs"].add(c[0].loc)
    rep.analysed["algorithm_slots"] = slots
    n_bad = sum(f["n"] for f in failures.values())
    rep.count("resolve", proved=total - n_bad, nontrivial=nontrivial - n_bad if nontrivial >= n_bad else 0, refuted=n_bad)
    for (rule, fname, detail), f in sorted(failures.items(), key=lambda kv: kv[0]):
        construct = "~".join(detail) if rule != "total" else f"{fname}({','.join(detail)})".replace("<any operator kind>", "OP")
        det = ""
        if rule == "total":
            ks = sorted(f.get("kinds", []))
            det = ",".join(ks) if len(ks) <= 3 else f"{len(ks)}-kinds"
        rep.refuted(rule, construct, f["stmt"] + f" [{f['n']} tuple(s), configurations {sorted(f['confs'])}]" + (f" kinds: {sorted(f.get('kinds', []))[:40]}" if rule == "total" else ""),
                    detail=det, derivation={"tuples": f["tuples"]}, locs=sorted(f["locs"]))
    # ---- cond arity: plum evaluates a rule's cond while matching EVERY signature registered for it, including the shorter ones
    # created by default arguments, with exactly the call's positional arguments
    for fname in sorted(idx.rules):
        for r in idx.rules[fname]:
            if r.kind != "rule" or not isinstance(r.cond, ast.Lambda):
                continue
            la = r.cond.args
            npos = len(la.posonlyargs) + len(la.args)
            lo, hi = npos - len(la.defaults), (10**6 if la.vararg is not None else npos)
            for sig in r.sigs:
                n = len(sig)
                ok = lo <= n <= hi
                dropped = [p[0] for p in r.params[n:]]
                rep.decide(ok, "cond-arity", f"{r.role}/{n}", f"cond `{ast.unparse(r.cond)[:60]}` accepts {lo}..{'*' if hi >= 10**6 else hi} positional arguments; this signature is matched with {n}" +
                           ("" if ok else f": a call that omits {dropped} raises TypeError inside the resolver before any rule is selected"), detail="" if ok else "arity", locs=[r.loc])
    rep.floor("cond-arity", 4)
    forwarded_algorithms(idx, rep, Resolver(idx, frozenset(idx.core_modules())))
    rep.floor("resolve", 3000 if tier == "quick" else 20000)
    # dead rules: informational
    for fname in fnames:
        for r in idx.rules[fname]:
            if r.kind == "rule" and id(r) not in winners_seen:
                rep.note(f"dead rule (wins for no admitted tuple): {r.role} at {r.loc}")
    if tier == "thorough":
        differential(idx, rep, intr)
    rep.exhaustive = True
    rep.explanation = ("Exhaustive enumeration of (function, operator kind(s), annotation set, algorithm class, arity, "
                       "configuration) over the dispatch-rule table extracted from the decorators of /repo/cola; each tuple is resolved "
                       "by a model of plum's Resolver.resolve (match, minimal signatures, precedence+0.5 for conditional rules) in "
                       "registration order and in reverse order; exactly one winner is required.")
    rep.assumptions += [
        "resolver model = Resolver.resolve / Signature.__le__ / append_default_args of cola-plum-dispatch 0.1.4 (differentially tested against the live registry in the thorough tier)",
        "conditions of the form P.isa(<Annotation>) are evaluated from the annotation set; any other condition is a free boolean and both values are explored",
        "admitted algorithm classes per slot = classes named by a rule at that slot + the default's class + classes the function's own rules construct",
        "argument kinds per function from sa/oracle_domains.py (documented domain) plus the types each rule documents itself",
    ]
    rep.assumptions.append("errors raised inside the selected rule are outside the property")


def forwarded_algorithms(idx, rep, res):
    """A rule of F that hands its own algorithm argument, untouched and unconditionally, to another dispatched function G makes every
    algorithm class F admits an input of G's rule selection.  What F admits = what its rules name or construct, plus whatever the
    functions it forwards to admit (`isqrt` documents Eig / Eigh / Lanczos / Arnoldi only because `pow` -> `apply_unary` take them).
    The main enumeration covers the classes G itself admits; for any other class there must be a rule of G for a generic operator that
    accepts it, otherwise `G(<generic operator>, k)` raises "no rule applies" on that path (the operand of the inner call is generic
    at least when F's own operand is, or when it is computed)."""
    from sa import dataflow as df
    algs = {c.name for c in idx.algorithm_classes()}
    edges = []
    for fname in sorted(DOMAINS):
        dom = DOMAINS[fname]
        for r in res.rules_of(fname):
            fnode = r.func.node
            for p, prm in enumerate(r.params):
                pn, atoms = prm[0], prm[1]
                if p >= len(dom) or dom[p].rstrip("?") != "ALG" or not atoms or not set(atoms) <= algs:
                    continue
                if any(isinstance(x, ast.Name) and x.id == pn and isinstance(x.ctx, ast.Store) for x in ast.walk(fnode)):
                    continue  # rebound: what is forwarded is no longer the caller's object
                for c in df.calls(fnode):
                    rr = idx.resolve_expr(r.module, c.func, r.func) if isinstance(c.func, (ast.Name, ast.Attribute)) else None
                    if rr is None or rr.kind != "funcs":
                        continue
                    g = rr.val[-1].name
                    if g not in DOMAINS or g not in idx.rules or not any(getattr(x, "rule", None) is not None for x in rr.val):
                        continue
                    grules = res.rules_of(g)
                    if not grules:
                        continue
                    ab = res.abstract_of(g)
                    pnames = [q[0] for q in (ab.params if ab is not None else max(grules, key=lambda x: len(x.params)).params)]
                    bound = df.bind_call(c, pnames)
                    for q, qn in enumerate(pnames):
                        e = bound.get(qn)
                        if q >= len(DOMAINS[g]) or DOMAINS[g][q].rstrip("?") != "ALG" or not (isinstance(e, ast.Name) and e.id == pn):
                            continue
                        conds = df.branch_conditions(c, fnode)
                        guarded = any(pn in {n.id for n in ast.walk(t) if isinstance(n, ast.Name)} for t, _pol in conds if isinstance(t, ast.AST))
                        op_e = bound.get(pnames[0])
                        own = isinstance(op_e, ast.Name) and op_e.id == r.params[0][0]
                        generic = (not own) or any(t in ("LinearOperator", "Any") for t in r.params[0][1])
                        edges.append((fname, p, r, c, g, q, guarded, generic, atoms, pn))
    adm = {}

    def base(f, p):
        if (f, p) not in adm:
            adm[(f, p)] = set(admitted_algorithms(idx, res, f, p))
        return adm[(f, p)]
    for e in edges:
        base(e[0], e[1]), base(e[4], e[5])
    changed = True
    while changed:
        changed = False
        for fname, p, r, c, g, q, guarded, generic, atoms, pn in edges:
            if guarded:
                continue
            add = {k for k in adm[(g, q)] if any(idx.is_subclass_name(k, a) for a in atoms)} - adm[(fname, p)]  # only what this rule can be selected with
            if add:
                adm[(fname, p)] |= add
                changed = True
    for fname, p, r, c, g, q, guarded, generic, atoms, pn in edges:
        construct = f"{r.role}->{g}"
        if guarded:
            rep.decide(None, "forwarded-algorithm", construct, f"`{pn}` is handed on to {g} under a condition on `{pn}` itself: not decided", locs=[idx.loc(r.module, c)])
            continue
        S = {k for k in adm[(fname, p)] if any(idx.is_subclass_name(k, a) for a in atoms)}
        grules = res.rules_of(g)
        missing = []
        for k in sorted(S - set(admitted_algorithms(idx, res, g, q))):
            if not generic:
                continue
            fits = [gr for gr in grules if gr.cond is None and q < len(gr.params) and any(idx.is_subclass_name(k, a) for a in gr.params[q][1])
                    and any(t in ("LinearOperator", "Any") for t in gr.params[0][1])]
            if not fits:
                missing.append(k)
        rep.decide(not missing, "forwarded-algorithm", construct,
                   f"`{pn}` is handed on to {g}: " + (f"every class {fname} admits there ({sorted(S)}) is admitted by {g} or accepted by one of its generic rules" if not missing else
                   f"{fname} admits {missing} at this position (they are what the other functions it forwards to take) but {g} has no rule for a generic operator with {'/'.join(missing)}: {g}(<generic operator>, {missing[0]}()) raises 'no rule applies'"),
                   detail="" if not missing else ",".join(missing), locs=[idx.loc(r.module, c)])
    rep.floor("forwarded-algorithm", 8)


def differential(idx, rep, intr):
    """thorough tier only: model vs live plum registry on the quick lattice (validation of the trusted base;
    it imports cola in a subprocess and never decides the property)"""
    import json
    import os
    import subprocess
    import sys
    confs = configurations(idx, "quick")
    total = mismatches = 0
    details = []
    for cname, mods in confs:
        res = Resolver(idx, mods)
        kinds = op_kinds(idx, mods)
        tuples, expect = [], []
        for fname in sorted(f for f, rs in idx.rules.items() if any(r.kind == "rule" for r in rs)):
            if not res.rules_of(fname):
                continue
            for tup, origin in enumerate_function(fname, res, idx, kinds, intr, "quick"):
                for free, (st, win, cands, matching) in res.resolve_all(fname, tup):
                    vals = set(free.values())
                    if len(vals) > 1:
                        continue
                    ft = True if not vals else next(iter(vals))
                    tuples.append({"f": fname, "args": [[a.cls, sorted(a.annots)] for a in tup], "free": ft})
                    if st == "OK":
                        r = win[0][0]
                        line = min([getattr(d, '_src_line', d.lineno) for d in r.node.decorator_list] + [getattr(r.node, '_src_line', r.node.lineno)])
                        expect.append(("OK", os.path.join(idx.root, r.module.rel), line))
                    else:
                        expect.append((st, None, None))
        extra = [m for m in sorted(mods) if m not in idx.core_modules() and any(r.module.name == m for rs in idx.rules.values() for r in rs)]
        env = dict(os.environ, PYTHONPATH=idx.root + os.pathsep + os.path.dirname(os.path.dirname(os.path.abspath(__file__))))
        p = subprocess.run([sys.executable, "-W", "ignore", "-m", "sa.livediff"], input=json.dumps({"tuples": tuples, "extra_modules": extra}), capture_output=True, text=True,
                           env=env, cwd=idx.root, timeout=600)
        if p.returncode != 0:
            rep.incomplete.append(f"differential test could not run in configuration {cname}: {p.stderr[-300:]}")
            continue
        live = json.loads(p.stdout)
        for t, e, l in zip(tuples, expect, live):
            total += 1
            same = e[0] == l["st"] and (e[0] != "OK" or (os.path.realpath(e[1]) == os.path.realpath(l["file"]) and e[2] == l["line"]))
            if not same:
                mismatches += 1
                if len(details) < 5:
                    details.append({"tuple": t, "model": list(e), "live": l})
    rep.validation["resolver_model_vs_live_registry"] = {"tuples": total, "mismatches": mismatches, "examples": details}
    if mismatches:
        rep.incomplete.append(f"resolver model disagrees with the live plum registry on {mismatches} of {total} tuples (checker broken): {details[:2]}")
