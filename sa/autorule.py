"""Decision tables of the `Auto` base-case rules: which algorithm class is constructed under
which truth assignment of the rule's atomic conditions, exhaustiveness, and guard implication
(an algorithm whose own rule asserts A.isa(P) is only chosen where the guard implies it)."""
import ast
import itertools

from sa import dataflow as df


class Decision:
    def __init__(self, rule):
        self.rule = rule
        self.atoms = []  # canonical atom texts
        self.rows = []  # (assignment dict, chosen class names list, None if no branch)
        self.problems = []


def _atom_text(e):
    return ast.unparse(e).replace(" ", "")


class _Eval:
    def __init__(self, idx, fi, names, assignment):
        self.idx, self.fi, self.names, self.asg = idx, fi, names, assignment

    def val(self, e):
        if isinstance(e, ast.Constant):
            return e.value
        if isinstance(e, ast.BoolOp):
            vals = [self.val(v) for v in e.values]
            return all(vals) if isinstance(e.op, ast.And) else any(vals)
        if isinstance(e, ast.UnaryOp) and isinstance(e.op, ast.Not):
            return not self.val(e.operand)
        if isinstance(e, ast.BinOp) and isinstance(e.op, (ast.BitAnd, ast.BitOr)):
            a, b = self.val(e.left), self.val(e.right)
            return (a and b) if isinstance(e.op, ast.BitAnd) else (a or b)
        if isinstance(e, ast.Name) and e.id in self.names:
            return self.val(self.names[e.id])
        if isinstance(e, ast.Call) and isinstance(e.func, ast.Name) and e.func.id == "bool" and e.args:
            return self.val(e.args[0])
        if isinstance(e, ast.Tuple):
            return tuple(self.val(x) for x in e.elts)
        return self.asg[_atom_text(e)]


def _atoms_of(e, names, out):
    if isinstance(e, ast.Constant):
        return
    if isinstance(e, ast.BoolOp):
        for v in e.values:
            _atoms_of(v, names, out)
        return
    if isinstance(e, ast.UnaryOp) and isinstance(e.op, ast.Not):
        return _atoms_of(e.operand, names, out)
    if isinstance(e, ast.BinOp) and isinstance(e.op, (ast.BitAnd, ast.BitOr)):
        _atoms_of(e.left, names, out)
        _atoms_of(e.right, names, out)
        return
    if isinstance(e, ast.Name) and e.id in names:
        return _atoms_of(names[e.id], names, out)
    if isinstance(e, ast.Call) and isinstance(e.func, ast.Name) and e.func.id == "bool" and e.args:
        return _atoms_of(e.args[0], names, out)
    if isinstance(e, ast.Tuple):
        for x in e.elts:
            _atoms_of(x, names, out)
        return
    t = _atom_text(e)
    if t not in out:
        out.append(t)


def _constructed(idx, fi, stmts, ev=None):
    """algorithm classes constructed in these statements (assigned or passed on) under the truth assignment of `ev`: conditional
    expressions are followed along the branch their test selects, and a class may be bound to a local first
    (`krylov = Lanczos if SA else Arnoldi; alg = krylov(...)`).  '?' stands for a call through a local that could not be resolved."""
    algs = {c.name for c in idx.algorithm_classes()}
    out = []
    local = {}

    def pick(e):
        """sub-expressions of e that are evaluated under ev"""
        if isinstance(e, ast.IfExp) and ev is not None:
            try:
                return pick(e.body if ev.val(e.test) else e.orelse)
            except KeyError:
                return pick(e.body) + pick(e.orelse)
        if isinstance(e, ast.IfExp):
            return pick(e.body) + pick(e.orelse)
        return [e]

    def classes_of(e):
        names = []
        for x in pick(e):
            r = idx.resolve_expr(fi.module, x, fi) if isinstance(x, (ast.Name, ast.Attribute)) and not (isinstance(x, ast.Name) and x.id in local) else None
            if r is not None and r.kind == "class":
                names.append(r.val.name)
            elif isinstance(x, ast.Name) and x.id in local:
                names += classes_of(local[x.id])
            else:
                names.append("?")
        return names

    def table_entry(call):
        """`TABLE[key](...)` with TABLE a module-level dict literal: the value selected by the key under ev, or None"""
        f = call.func
        if not (isinstance(f, ast.Subscript) and isinstance(f.value, ast.Name)):
            return None
        r = idx.resolve_expr(fi.module, f.value, fi)
        if r is None or r.kind != "value" or not isinstance(r.val, ast.Dict) or ev is None:
            return None
        try:
            key = ev.val(f.slice)
        except KeyError:
            return None
        for k_, v_ in zip(r.val.keys, r.val.values):
            try:
                if k_ is not None and ast.literal_eval(k_) == key:
                    return v_
            except (ValueError, SyntaxError):
                return None
        return None

    def visit(e):
        for x in pick(e):
            if isinstance(x, ast.Call) and isinstance(x.func, ast.Subscript):
                sel = table_entry(x)
                if sel is None:
                    out.append("?")  # a call through a table that cannot be read: something is constructed, it is not known what
                elif isinstance(sel, ast.Lambda):
                    visit(sel.body)
                else:
                    for cn in classes_of(sel):
                        if cn in algs:
                            out.append(cn)
                for a_ in list(x.args) + [k.value for k in x.keywords]:
                    visit(a_)
                continue
            if isinstance(x, ast.Call):
                for cn in classes_of(x.func):
                    if cn in algs or (cn == "?" and isinstance(x.func, ast.Name) and x.func.id in local):
                        out.append(cn)
                for a_ in list(x.args) + [k.value for k in x.keywords]:
                    visit(a_)
            else:
                for c in ast.iter_child_nodes(x):
                    if isinstance(c, ast.expr):
                        visit(c)

    for st in stmts:
        if isinstance(st, ast.Assign) and len(st.targets) == 1 and isinstance(st.targets[0], ast.Name):
            local[st.targets[0].id] = st.value
        for c in ast.iter_child_nodes(st):
            if isinstance(c, ast.expr):
                visit(c)
            elif isinstance(c, ast.stmt):
                for y in ast.walk(c):
                    if isinstance(y, ast.Call):
                        visit(y)
    return out


def decision_table(idx, rule):
    return decision_table_of_function(idx, rule, rule.func)


def decision_table_of_function(idx, rule, fi):
    """decision table of `fi` (the Auto rule itself, or the helper it delegates the choice to): the function body is executed once per
    consistent truth assignment of its atomic conditions -- if/elif/else at any depth, early returns, match statements and conditional
    expressions all select the path -- and the algorithm classes constructed along the path are the row"""
    d = Decision(rule)
    body = [s for s in fi.node.body if not (isinstance(s, ast.Expr) and isinstance(s.value, ast.Constant))]

    def own_nodes(stmts):
        for st in stmts:
            stack = [st]
            while stack:
                n = stack.pop()
                if isinstance(n, (ast.FunctionDef, ast.AsyncFunctionDef, ast.ClassDef, ast.Lambda)):
                    continue
                yield n
                stack.extend(ast.iter_child_nodes(n))

    deciders = [n for n in own_nodes(body) if isinstance(n, (ast.If, ast.Match, ast.IfExp))]
    has_table = any(isinstance(n, ast.Call) and isinstance(n.func, ast.Subscript) and isinstance(n.func.value, ast.Name) for n in own_nodes(body))
    if not any(isinstance(n, (ast.If, ast.Match)) for n in deciders) and not any(isinstance(n, ast.IfExp) for n in deciders) and not has_table:
        # the choice lives in a helper the rule calls: tabulate the helper instead
        for st in body:
            for c in [x for x in ast.walk(st) if isinstance(x, ast.Call)]:
                r = idx.resolve_expr(fi.module, c.func, fi)
                if r is not None and r.kind == "funcs" and getattr(r.val[-1], "rule", None) is None and r.val[-1].module is fi.module \
                        and any(isinstance(x, (ast.If, ast.Match, ast.IfExp)) for x in ast.walk(r.val[-1].node)):
                    sub = decision_table_of_function(idx, rule, r.val[-1])
                    if not sub.problems:
                        return sub
        d.problems.append("no if/elif or match statement found in the Auto rule")
        return d
    names = {}
    for n in own_nodes(body):
        if isinstance(n, ast.Assign) and len(n.targets) == 1:
            t = n.targets[0]
            if isinstance(t, ast.Name):
                names.setdefault(t.id, []).append(n.value)
            elif isinstance(t, ast.Tuple) and isinstance(n.value, ast.Tuple) and len(t.elts) == len(n.value.elts):
                for a, b in zip(t.elts, n.value.elts):
                    if isinstance(a, ast.Name):
                        names.setdefault(a.id, []).append(b)
    # only singly-bound names stand for their value; parameter names re-bound to the chosen algorithm are not conditions
    param_like = {p[0] for p in rule.params} | set(fi.params)
    names = {k: v[0] for k, v in names.items() if len(v) == 1 and not (k in param_like and _is_ctor(idx, fi, v[0]))}
    atoms = []
    for n in deciders:
        _atoms_of(n.subject if isinstance(n, ast.Match) else n.test, names, atoms)
    # the key of a lookup in a module-level decision table (`TABLE[is_sa, small](...)`) decides as well
    for n in own_nodes(body):
        if isinstance(n, ast.Call) and isinstance(n.func, ast.Subscript) and isinstance(n.func.value, ast.Name):
            r_ = idx.resolve_expr(fi.module, n.func.value, fi)
            if r_ is not None and r_.kind == "value" and isinstance(r_.val, ast.Dict):
                _atoms_of(n.func.slice, names, atoms)
    d.atoms = atoms
    if len(atoms) > 6:
        d.problems.append(f"{len(atoms)} atomic conditions: too many to tabulate")
        return d

    class Unreachable(Exception):
        pass

    def run(stmts, ev, path):
        """True when the path left the function"""
        for st in stmts:
            if isinstance(st, ast.If):
                if run(st.body if ev.val(st.test) else st.orelse, ev, path):
                    return True
            elif isinstance(st, ast.Match):
                subj = ev.val(st.subject)
                for case in st.cases:
                    if _match(case.pattern, subj) and (case.guard is None or ev.val(case.guard)):
                        if run(case.body, ev, path):
                            return True
                        break
            elif isinstance(st, ast.Assert) and isinstance(st.test, ast.Constant) and st.test.value is False:
                raise Unreachable()
            else:
                path.append(st)
                if isinstance(st, (ast.Return, ast.Raise)):
                    return True
        return False

    for vals in itertools.product([True, False], repeat=len(atoms)):
        asg = dict(zip(atoms, vals))
        if not _consistent(idx, fi, asg):
            continue
        ev = _Eval(idx, fi, names, asg)
        path = []
        try:
            run(body, ev, path)
        except Unreachable:
            d.rows.append((asg, "UNREACHABLE"))
            continue
        except KeyError as e:
            d.problems.append(f"a branch condition is not a combination of the tabulated atoms: {e}")
            return d
        d.rows.append((asg, _constructed(idx, fi, path, ev)))
    return d


def _is_ctor(idx, fi, v):
    if isinstance(v, ast.Call):
        r = idx.resolve_expr(fi.module, v.func, fi)
        return r is not None and r.kind == "class"
    return False


def _match(pattern, subj):
    if isinstance(pattern, ast.MatchAs) and pattern.pattern is None:
        return True
    if isinstance(pattern, ast.MatchSingleton):
        return subj is pattern.value
    if isinstance(pattern, ast.MatchValue) and isinstance(pattern.value, ast.Constant):
        return subj == pattern.value.value
    if isinstance(pattern, ast.MatchSequence):
        if not isinstance(subj, tuple) or len(subj) != len(pattern.patterns):
            return False
        return all(_match(p, s) for p, s in zip(pattern.patterns, subj))
    return False


def isa_atoms(idx, fi, asg):
    """atoms of the form X.isa(P) -> (operand name, annotation class name, value)"""
    out = []
    for t, v in asg.items():
        try:
            e = ast.parse(t, mode="eval").body
        except SyntaxError:
            continue
        if isinstance(e, ast.Call) and isinstance(e.func, ast.Attribute) and e.func.attr == "isa" and isinstance(e.func.value, ast.Name) and e.args:
            r = idx.resolve_expr(fi.module, e.args[0], fi)
            if r is not None and r.kind == "class":
                out.append((e.func.value.id, r.val.name, v))
    return out


def _consistent(idx, fi, asg):
    facts = isa_atoms(idx, fi, asg)
    for who, ann, v in facts:
        if not v:
            continue
        anc = [c.name for c in idx.mro(idx.cls(ann))] if idx.has_cls(ann) else [ann]
        for who2, ann2, v2 in facts:
            if who2 == who and ann2 in anc and not v2:
                return False
    return True


def required_annotations(idx, res, fname, alg_pos, alg_cls):
    """annotations that the rule selected for (LinearOperator, ..., alg_cls, ...) asserts on its operator argument"""
    out = []
    for r in res.rules_of(fname):
        if alg_pos < len(r.params) and r.params[alg_pos][1] and alg_cls in r.params[alg_pos][1] or \
                (alg_pos < len(r.params) and any(res.sub(alg_cls, t) for t in r.params[alg_pos][1]) and "Algorithm" not in r.params[alg_pos][1] and "Auto" not in r.params[alg_pos][1]):
            for st in r.node.body:
                if isinstance(st, ast.Assert) and isinstance(st.test, ast.Call) and isinstance(st.test.func, ast.Attribute) and st.test.func.attr == "isa" and st.test.args:
                    rr = idx.resolve_expr(r.module, st.test.args[0], r.func)
                    if rr is not None and rr.kind == "class":
                        out.append((rr.val.name, r))
    return out


def _param_bound_to(idx, rule, helper, arg_name):
    """the parameter of `helper` that receives the rule's local `arg_name` at the call in the rule"""
    for c in df.calls(rule.func.node):
        r = idx.resolve_expr(rule.func.module, c.func, rule.func)
        if r is not None and r.kind == "funcs" and r.val[-1] is helper:
            for p, e in df.bind_call(c, helper.params).items():
                if isinstance(e, ast.Name) and e.id == arg_name:
                    return p
    return None


def check_auto(idx, res, rep, fname, alg_pos, rule_name="auto-rule"):
    """obligations for every Auto rule of `fname`: exhaustive, and guard implication"""
    autos = [r for r in res.rules_of(fname) if alg_pos < len(r.params) and r.params[alg_pos][1] == frozenset({"Auto"})]
    if not autos:
        rep.missing_anchor(f"Auto base case of {fname}")
        return
    for rule in autos:
        # the options of the Auto object reach whatever iterative algorithm is constructed (in the rule or in the helper that chooses)
        holders = [rule.func] + [r_.val[-1] for c_ in df.calls(rule.func.node) for r_ in [idx.resolve_expr(rule.func.module, c_.func, rule.func)]
                                 if r_ is not None and r_.kind == "funcs" and getattr(r_.val[-1], "rule", None) is None and r_.val[-1].module is rule.func.module]
        for h in holders:
            ap = rule.params[alg_pos][0] if h is rule.func else _param_bound_to(idx, rule, h, rule.params[alg_pos][0])
            if ap is not None:
                option_forwarding(idx, rep, rule, h, ap)
        d = decision_table(idx, rule)
        construct = rule.role
        if d.problems:
            rep.undecided(rule_name, construct, d.problems[0], locs=[rule.loc])
            continue
        holes = [asg for asg, ch in d.rows if ch is None or ch == [] or ch == "UNREACHABLE"]
        if holes:
            rep.refuted(rule_name, construct + ":exhaustive", f"no algorithm is chosen when {holes[0]} (the call would recurse on Auto forever or fall through)",
                        detail="hole", locs=[rule.loc], derivation=[str(h) for h in holes[:4]])
        else:
            rep.proved(rule_name, construct + ":exhaustive", f"{len(d.rows)} consistent truth assignments of {d.atoms} each construct an algorithm", locs=[rule.loc])
        bad = []
        n = 0
        for asg, chosen in d.rows:
            if not chosen or chosen == "UNREACHABLE":
                continue
            facts = isa_atoms(idx, rule.func, asg)
            for cls in chosen:
                if cls == "?":
                    continue
                for need, r2 in required_annotations(idx, res, fname, alg_pos, cls):
                    n += 1
                    holds = False
                    for who, ann, v in facts:
                        if v and idx.has_cls(ann) and need in [c.name for c in idx.mro(idx.cls(ann))]:
                            holds = True
                    if not holds:
                        bad.append((cls, need, asg, r2))
        if bad:
            cls, need, asg, r2 = bad[0]
            rep.refuted(rule_name, construct + ":guard-implication", f"{cls} is chosen when {asg}, but {r2.role} asserts A.isa({need}), which that branch does not imply",
                        detail=f"{cls}:{need}", locs=[rule.loc, r2.loc])
        else:
            rep.proved(rule_name, construct + ":guard-implication", f"{n} (chosen algorithm, asserted annotation) pairs are implied by the branch guard", locs=[rule.loc], nontrivial=n > 0)


# ------------------------------------------------------------------------------------------------ options of Auto reach the chosen algorithm
def _fields_of(idx, cname):
    """dataclass fields (annotated class-level names) of an algorithm class, own and inherited"""
    out = []
    if not idx.has_cls(cname):
        return out
    for ci in reversed(idx.mro(idx.cls(cname))):
        for st in ci.node.body:
            if isinstance(st, ast.AnnAssign) and isinstance(st.target, ast.Name) and st.target.id not in out:
                out.append(st.target.id)
    return out


def option_forwarding(idx, rep, rule, fi, alg_param, rule_name="auto-options"):
    """Every iterative algorithm an Auto rule constructs must be configured from the Auto object's own options: either wholesale
    (`K(**alg.__dict__)`) or field by field, each field f of K read from `alg` under the key f.  A field filled from another key
    (`max_iters=opts.get("max_iter", ..)`) or from another object (`getattr(K, f)`) silently replaces what the caller asked for by
    the default -- the tolerance / iteration cap contract of the property is then not honoured on that path."""
    algs = {c.name for c in idx.algorithm_classes()}
    construct = rule.role
    n = 0

    def resolve(e, depth=0):
        e2 = df.resolve_value(fi.node, e) if isinstance(e, ast.Name) else e
        return e2

    def is_alg_dict(e):
        """alg.__dict__ / vars(alg) / dict(alg.__dict__) / a copy of it"""
        e = resolve(e)
        if isinstance(e, ast.Attribute) and e.attr == "__dict__" and isinstance(e.value, ast.Name) and e.value.id == alg_param:
            return True
        if isinstance(e, ast.Call) and isinstance(e.func, ast.Name) and e.func.id in ("vars", "dict") and len(e.args) == 1:
            return is_alg_dict(e.args[0]) or (e.func.id == "vars" and isinstance(e.args[0], ast.Name) and e.args[0].id == alg_param)
        if isinstance(e, ast.Call) and isinstance(e.func, ast.Attribute) and e.func.attr == "copy" and not e.args:
            return is_alg_dict(e.func.value)
        return False

    def option_read(e):
        """(source ok?, key) when e reads one option: alg.f, alg.__dict__['f'], alg.__dict__.get('f', d), getattr(alg, 'f', d); None otherwise"""
        e = resolve(e)
        if isinstance(e, ast.Attribute) and isinstance(e.value, ast.Name):
            return (e.value.id == alg_param, e.attr)
        if isinstance(e, ast.Subscript) and isinstance(e.slice, ast.Constant) and isinstance(e.slice.value, str):
            return (is_alg_dict(e.value), e.slice.value)
        if isinstance(e, ast.Call) and isinstance(e.func, ast.Attribute) and e.func.attr == "get" and e.args and isinstance(e.args[0], ast.Constant) and isinstance(e.args[0].value, str):
            return (is_alg_dict(e.func.value), e.args[0].value)
        if isinstance(e, ast.Call) and isinstance(e.func, ast.Name) and e.func.id == "getattr" and len(e.args) >= 2 and isinstance(e.args[1], ast.Constant):
            return (isinstance(e.args[0], ast.Name) and e.args[0].id == alg_param, e.args[1].value)
        return None

    for c in [x for x in ast.walk(fi.node) if isinstance(x, ast.Call)]:
        r = idx.resolve_expr(fi.module, c.func, fi) if isinstance(c.func, (ast.Name, ast.Attribute)) else None
        if r is None or r.kind != "class" or r.val.name not in algs:
            continue
        k = r.val.name
        flds = _fields_of(idx, k)
        if k == "Auto" or not ({"tol", "max_iters"} & set(flds)):
            continue  # direct algorithms (Cholesky(), LU(), Eigh(), Exact(bs)) carry no tolerance / iteration contract
        loc = [idx.loc(fi.module, c)]
        n += 1
        stars = [kw.value for kw in c.keywords if kw.arg is None]
        named = {kw.arg: kw.value for kw in c.keywords if kw.arg is not None}
        verdict, why = None, ""
        if not stars and not named and not c.args:
            par = getattr(c, "_parent", None)
            if isinstance(par, ast.Assign) and len(par.targets) == 1 and isinstance(par.targets[0], ast.Name):
                nm = par.targets[0].id
                uses = [x for x in ast.walk(fi.node) if isinstance(x, ast.Name) and x.id == nm and isinstance(x.ctx, ast.Load)]
                if uses and all(isinstance(getattr(u, "_parent", None), ast.Attribute) for u in uses):
                    n -= 1
                    continue  # an instance built only to read the class defaults from (`default = K(); ... default.tol`)
            verdict, why = False, f"{k}() is constructed with its defaults: the options given to the Auto object are dropped"
        elif stars and all(is_alg_dict(s) for s in stars) and not named and not c.args:
            verdict, why = True, f"{k}(**{alg_param}.__dict__): every option of the Auto object is handed on"
        elif stars and not named and not c.args and len(stars) == 1 and isinstance(resolve(stars[0]), ast.DictComp):
            dc = resolve(stars[0])
            # {f.name: getattr(SRC, f.name, f.default) for f in fields(K)}
            v = dc.value
            if isinstance(v, ast.Call) and isinstance(v.func, ast.Name) and v.func.id == "getattr" and v.args and isinstance(v.args[0], ast.Name):
                ok = v.args[0].id == alg_param
                same_key = len(v.args) > 1 and ast.dump(v.args[1]) == ast.dump(dc.key)
                verdict = True if ok and same_key else False
                why = f"{k} is configured field by field from `{v.args[0].id}`" + ("" if verdict else f": not from the Auto object `{alg_param}` -- the caller's options are replaced by defaults")
            elif isinstance(v, ast.Call) and isinstance(v.func, ast.Attribute) and v.func.attr == "get" and is_alg_dict(v.func.value):
                verdict = True if v.args and ast.dump(v.args[0]) == ast.dump(dc.key) else None
                why = f"{k} is configured field by field from {alg_param}.__dict__"
        elif named and not stars and not c.args:
            bad = []
            unknown = []
            for f_, e in named.items():
                rd = option_read(e)
                if rd is None:
                    unknown.append(f_)
                elif not rd[0]:
                    bad.append(f"{f_} is not read from the Auto object `{alg_param}`")
                elif rd[1] != f_:
                    bad.append(f"{f_} is filled from the option '{rd[1]}'")
            if bad:
                verdict, why = False, f"{k}(...): " + "; ".join(bad) + " -- the caller's value is silently replaced by the default"
            elif not unknown:
                verdict, why = True, f"{k}(...): fields {sorted(named)} are each read from `{alg_param}` under their own name"
            else:
                why = f"{k}(...): the values of {unknown} are not plain reads of an option"
        if verdict is None and not why:
            why = f"`{ast.unparse(c)[:60]}`: configuration not recognised"
        rep.decide(verdict, rule_name, f"{construct}:{k}", why, detail="" if verdict else "dropped", locs=loc)
    return n


NARY_KINDS = ("Product", "Sum", "Kronecker", "KronSum", "BlockDiag", "Concatenated")
_META_ATTRS = {"xnp", "dtype", "device", "shape"}


def arity_coverage(idx, rule):
    """A dispatch rule for an n-ary composite (Product, Sum, Kronecker, ...) that takes its parts by CONSTANT index (`A.Ms[0]`,
    `A.Ms[1]`) and never looks at the sequence as a whole handles a fixed number of parts: unless the number is pinned (a `len(A.Ms)`
    test in the rule's condition or in a raise / assert guard) the remaining parts are silently dropped -- `dot()` flattens products,
    so `(c*A) @ B` is Product(c, A, B).  Reads of a part's metadata only (`A.Ms[0].xnp / .dtype / .device`) do not count.
    -> list of (ok, text, node); empty when the rule does not index its parts by constants."""
    import ast as _ast
    from sa import dataflow as _df
    out = []
    fi = rule.func
    for prm, kinds in zip(rule.params, rule.types):
        pname = prm[0]
        ks = sorted(kinds)
        if len(ks) != 1 or ks[0] not in NARY_KINDS:
            continue
        const_reads, whole = [], False
        nodes = list(_df.body_nodes(fi.node))
        cond = getattr(rule, "cond", None)
        cond_nodes = list(_ast.walk(cond)) if isinstance(cond, _ast.AST) else []
        cond_param = None
        if isinstance(cond, _ast.Lambda) and cond.args.args:
            # the condition's own name for this parameter (same position)
            pos = [p[0] for p in rule.params].index(pname)
            if pos < len(cond.args.args):
                cond_param = cond.args.args[pos].arg
        for n in nodes + cond_nodes:
            if not (isinstance(n, _ast.Attribute) and n.attr == "Ms" and isinstance(n.value, _ast.Name) and n.value.id in (pname, cond_param)):
                continue
            par = getattr(n, "_parent", None)
            in_cond = any(n is x for x in cond_nodes)
            if isinstance(par, _ast.Subscript) and par.value is n and not isinstance(par.slice, _ast.Slice):
                i = par.slice
                v = i.value if isinstance(i, _ast.Constant) else (-i.operand.value if isinstance(i, _ast.UnaryOp) and isinstance(i.op, _ast.USub) and isinstance(i.operand, _ast.Constant) else None)
                if isinstance(v, int):
                    gp = getattr(par, "_parent", None)
                    meta_only = isinstance(gp, _ast.Attribute) and gp.value is par and gp.attr in _META_ATTRS
                    if not meta_only and not in_cond:
                        const_reads.append((v, par))
                    continue
            whole = True  # iterated, measured, sliced, starred, passed on
        if not const_reads or whole and not cond_nodes:
            if not const_reads:
                continue
        # is the number of parts pinned?
        def pins(nodes_):
            for x in nodes_:
                if isinstance(x, _ast.Compare) and any(isinstance(y, _ast.Call) and isinstance(y.func, _ast.Name) and y.func.id == "len" and y.args
                                                       and isinstance(y.args[0], _ast.Attribute) and y.args[0].attr == "Ms" for y in _ast.walk(x)):
                    return True
            return False
        pinned = pins(cond_nodes) or pins(nodes)
        body_whole = any(isinstance(n, _ast.Attribute) and n.attr == "Ms" and isinstance(n.value, _ast.Name) and n.value.id == pname
                         and not (isinstance(getattr(n, "_parent", None), _ast.Subscript) and getattr(n, "_parent").value is n
                                  and not isinstance(getattr(n, "_parent").slice, _ast.Slice)) for n in nodes)
        idxs = sorted({v for v, _ in const_reads})
        if pinned or body_whole:
            out.append((True, f"parts {idxs} of `{pname}` are taken by index" + (" and the number of parts is pinned by a len() test" if pinned else "; the remaining parts are reached through the whole sequence"),
                        const_reads[0][1]))
        else:
            out.append((False, f"the rule takes parts {idxs} of the {ks[0]} `{pname}` by constant index and never looks at the rest: nothing pins the number of parts "
                               f"(no len({pname}.Ms) test in the condition or a guard), so for a {ks[0]} with more parts the others are silently dropped", const_reads[0][1]))
    return out


def arity_obligations(idx, rep, rules, rule_name="part-coverage"):
    """part-coverage obligations (see arity_coverage) for an iterable of dispatch rules"""
    n = 0
    for rule in rules:
        for ok_, text_, node_ in arity_coverage(idx, rule):
            n += 1
            rep.decide(ok_, rule_name, rule.role, text_, detail="" if ok_ else "fixed-arity", locs=[idx.loc(rule.func.module, node_)])
    return n


def _mapping_of(idx, fi, e, self_name, depth=0):
    """what a `**e` argument carries: {key: value expr} for a dict literal / dict(k=v) (also through a local name), "ALL-FIELDS" for
    a mapping of every declared field of the receiver (self.__dict__, vars(self), {f.name: getattr(self, f.name) for f in fields(self)},
    also when a method of the receiver's class returns it), None otherwise"""
    if depth > 3:
        return None
    if isinstance(e, ast.Name):
        v = df.resolve_value(fi.node, e)
        return None if v is e or v is None else _mapping_of(idx, fi, v, self_name, depth + 1)
    if isinstance(e, ast.Dict) and all(isinstance(k, ast.Constant) and isinstance(k.value, str) for k in e.keys):
        return {k.value: v for k, v in zip(e.keys, e.values)}
    if isinstance(e, ast.Attribute) and e.attr == "__dict__" and isinstance(e.value, ast.Name) and e.value.id == self_name:
        return "ALL-FIELDS"
    if isinstance(e, ast.DictComp) and len(e.generators) == 1 and self_name is not None:
        g = e.generators[0]
        it = g.iter
        over_fields = isinstance(it, ast.Call) and (ast.unparse(it.func).split(".")[-1] == "fields") and it.args and isinstance(it.args[0], ast.Name) and it.args[0].id == self_name
        if over_fields and isinstance(g.target, ast.Name) and not g.ifs:
            t = g.target.id
            key_ok = isinstance(e.key, ast.Attribute) and e.key.attr == "name" and isinstance(e.key.value, ast.Name) and e.key.value.id == t
            v = e.value
            val_ok = (isinstance(v, ast.Call) and isinstance(v.func, ast.Name) and v.func.id == "getattr" and len(v.args) == 2 and isinstance(v.args[0], ast.Name)
                      and v.args[0].id == self_name and ast.unparse(v.args[1]) == f"{t}.name")
            if key_ok and val_ok:
                return "ALL-FIELDS"
        return None
    if isinstance(e, ast.Call):
        f = e.func
        if isinstance(f, ast.Name) and f.id == "dict" and not e.args and all(k.arg is not None for k in e.keywords):
            return {k.arg: k.value for k in e.keywords}
        if isinstance(f, ast.Name) and f.id in ("dict", "vars") and len(e.args) == 1 and not e.keywords:
            a = e.args[0]
            if f.id == "vars" and isinstance(a, ast.Name) and a.id == self_name:
                return "ALL-FIELDS"
            return _mapping_of(idx, fi, a, self_name, depth + 1)
        if isinstance(f, ast.Attribute) and f.attr == "copy" and not e.args:
            return _mapping_of(idx, fi, f.value, self_name, depth + 1)
        if isinstance(f, ast.Attribute) and isinstance(f.value, ast.Name) and f.value.id == self_name and not e.args and not e.keywords and fi.cls is not None:
            meth = idx.find_method(fi.cls, f.attr)
            if meth is not None and meth.params:
                rets = [r.value for r in df.returns(meth.node) if r.value is not None]
                if len(rets) == 1:
                    m_ = _mapping_of(idx, meth, rets[0], meth.params[0], depth + 1)
                    return m_ if m_ == "ALL-FIELDS" else None  # explicit keys of another scope are not re-read here
    return None


def option_passthrough(idx, rep, fi, options, rule_name="option-passthrough", report=True):
    """A routine that takes a contract option (tolerance, iteration cap, probe distribution, key) and calls another library routine
    with a parameter of the same name must hand its own value on: positionally, by keyword, or wholesale (`**self.__dict__`).  A call
    that leaves the callee's parameter unbound runs the callee with its default -- what the caller asked for is silently dropped.
    Own options of a method of an algorithm (dataclass) class include the class fields (`self.o`).
    Returns [(ok, construct, text, loc)]; ok None = bound from something this rule does not interpret."""
    own = {p for p in fi.params if p in options}
    kw = {a.arg for a in fi.node.args.kwonlyargs}
    own |= kw & set(options)
    fields = set()
    self_name = None
    if fi.cls is not None and fi.params:
        fields = set(_fields_of(idx, fi.cls.name)) & set(options)
        self_name = fi.params[0]
    out = []
    if not own and not fields:
        return out
    for c in df.calls(fi.node):
        r = idx.resolve_expr(fi.module, c.func, fi) if isinstance(c.func, (ast.Name, ast.Attribute)) else None
        if r is None or r.kind != "funcs":
            continue
        callee = r.val[-1]
        if callee.node is fi.node or not callee.module.name.startswith("cola"):
            continue
        a = callee.node.args
        cparams = [x.arg for x in a.posonlyargs + a.args] + [x.arg for x in a.kwonlyargs]
        if a.kwarg is not None:
            continue  # **kwargs: what the callee does with them is not visible here
        bound = df.bind_call(c, callee.params)
        if "*" in bound:
            continue
        all_fields = False
        for sx in list(bound.get("**", [])):
            m_ = _mapping_of(idx, fi, sx, self_name)
            if m_ == "ALL-FIELDS":
                all_fields = True
            elif isinstance(m_, dict):
                for k_, v_ in m_.items():
                    bound.setdefault(k_, v_)
        for o in sorted((own | fields) & set(cparams)):
            construct = f"{fi.short}->{callee.short}:{o}"
            loc = idx.loc(fi.module, c)
            if o in bound:
                e = bound[o]
                e2 = df.resolve_value(fi.node, e) if isinstance(e, ast.Name) and e.id != o else e
                names = {n.id for n in ast.walk(e2) if isinstance(n, ast.Name)} | {n.id for n in ast.walk(e) if isinstance(n, ast.Name)}
                attrs = {n.attr for n in ast.walk(e2) if isinstance(n, ast.Attribute) and isinstance(n.value, ast.Name) and n.value.id == self_name}
                if o in names or o in attrs:
                    out.append((True, construct, f"`{o}` is handed on as `{ast.unparse(e)[:40]}`", loc))
                else:
                    out.append((None, construct, f"`{o}` of {callee.short} is bound to `{ast.unparse(e)[:40]}`, which does not read the caller's `{o}`", loc))
            elif all_fields and o in fields:
                out.append((True, construct, f"`{o}` arrives with every declared field of the algorithm object", loc))
            elif "**" in bound:
                ok = None
                for s in bound["**"]:
                    s2 = df.resolve_value(fi.node, s) if isinstance(s, ast.Name) else s
                    if isinstance(s2, ast.Attribute) and s2.attr == "__dict__" and isinstance(s2.value, ast.Name) and (s2.value.id == self_name and o in fields):
                        ok = True
                    if isinstance(s2, ast.Call) and isinstance(s2.func, ast.Name) and s2.func.id == "vars" and s2.args and isinstance(s2.args[0], ast.Name) and s2.args[0].id == self_name and o in fields:
                        ok = True
                out.append((ok, construct, f"`{o}` arrives through `**{ast.unparse(bound['**'][0])[:30]}`" if ok else f"`{o}` may arrive through a ** mapping this rule does not interpret", loc))
            else:
                out.append((False, construct, f"{fi.short} takes `{o}` but calls {callee.short} without it: {callee.short} runs with its default `{o}`, whatever the caller asked for", loc))
    if report:
        for ok, construct, text, loc in out:
            rep.decide(ok, rule_name, construct, text, detail="" if ok is not False else "dropped", locs=[loc])
    return out


def passthrough_in(idx, rep, module_suffixes, class_names, options, floor, rule_name="option-passthrough"):
    """option_passthrough over every function of the named modules and the `__call__` of the named algorithm classes"""
    n = 0
    for fi in idx.funcs.values():
        in_mod = any(fi.module.name.endswith(s) for s in module_suffixes)
        in_cls = fi.cls is not None and fi.cls.name in class_names and fi.name == "__call__"
        if not (in_mod or in_cls):
            continue
        n += len(option_passthrough(idx, rep, fi, options, rule_name))
    rep.floor(rule_name, floor)
    return n
