"""Source normal form used by the index: every single-assignment, single-use temporary whose use is in the very next
statement of the same block is inlined (`t = e; return f(t)` -> `return f(e)`).

Checks are written against this normal form, so introducing or removing such temporaries (the most common
behaviour-preserving refactoring) cannot change a verdict.  Moved expression nodes keep their original positions,
so reported locations still point into the file as written.  Names that occur in nested scopes (closures, lambdas,
comprehensions), parameters, multiply-assigned or multiply-read names are never touched, nor are uses inside
compound statements (the temporary may be evaluated a different number of times there)."""
import ast

COMPOUND = (ast.For, ast.AsyncFor, ast.While, ast.If, ast.With, ast.AsyncWith, ast.Try, ast.FunctionDef, ast.AsyncFunctionDef, ast.ClassDef, ast.Match)
SCOPES = (ast.FunctionDef, ast.AsyncFunctionDef, ast.Lambda, ast.ListComp, ast.GeneratorExp, ast.SetComp, ast.DictComp, ast.ClassDef)


def _process_function(fn):
    n = 0
    while True:
        loads, stores = {}, {}
        nested_names = set()
        simple = {}  # name -> number of stores that are `name = <expr>` statements whose next sibling reads the name exactly once

        def scan(node, nested):
            for c in ast.iter_child_nodes(node):
                inner = nested or isinstance(c, SCOPES)
                if isinstance(c, ast.Name):
                    (loads if isinstance(c.ctx, ast.Load) else stores).setdefault(c.id, []).append(c)
                    if inner:
                        nested_names.add(c.id)
                elif isinstance(c, ast.arg):
                    stores.setdefault(c.arg, []).extend([c, c])  # parameters are never temporaries
                elif isinstance(c, (ast.Global, ast.Nonlocal)):
                    for nm in c.names:
                        stores.setdefault(nm, []).extend([c, c])
                elif isinstance(c, ast.AugAssign) and isinstance(c.target, ast.Name):
                    loads.setdefault(c.target.id, []).extend([c, c])  # `x op= e` reads x as well: never a single-use temporary
                elif isinstance(c, (ast.MatchAs, ast.MatchStar)) and c.name:
                    stores.setdefault(c.name, []).extend([c, c])
                scan(c, inner)
        scan(fn, False)

        def blocks_of(node):
            for f in ("body", "orelse", "finalbody"):
                b = getattr(node, f, None)
                if isinstance(b, list) and b and isinstance(b[0], ast.stmt):
                    yield b
            for h in getattr(node, "handlers", []) or []:
                yield h.body
            for c in getattr(node, "cases", []) or []:
                yield c.body

        def count_simple(blk):
            for i, st in enumerate(blk):
                if isinstance(st, ast.Assign) and len(st.targets) == 1 and isinstance(st.targets[0], ast.Name) and i + 1 < len(blk) and not isinstance(blk[i + 1], COMPOUND):
                    x = st.targets[0].id
                    uses = [y for y in ast.walk(blk[i + 1]) if isinstance(y, ast.Name) and y.id == x and isinstance(y.ctx, ast.Load)]
                    self_ref = any(isinstance(y, ast.Name) and y.id == x and isinstance(y.ctx, ast.Load) for y in ast.walk(st.value))
                    if len(uses) == 1 and not self_ref:
                        simple[x] = simple.get(x, 0) + 1
                if not isinstance(st, (ast.FunctionDef, ast.AsyncFunctionDef, ast.ClassDef)):
                    for b in blocks_of(st):
                        count_simple(b)
        count_simple(fn.body)
        changed = False

        def do_block(blk):
            nonlocal n, changed
            i = 0
            while i < len(blk) - 1:
                st, nx = blk[i], blk[i + 1]
                if (isinstance(st, ast.Assign) and len(st.targets) == 1 and isinstance(st.targets[0], ast.Name) and not isinstance(nx, COMPOUND)
                        and not isinstance(st.value, (ast.Lambda, ast.Yield, ast.YieldFrom, ast.Await))):
                    x = st.targets[0].id
                    # a temporary: every store of the name is such an assignment and every load is the single use that follows one
                    # (one store and one load; or one name re-used for the same purpose in several branches)
                    n_st, n_ld = len(stores.get(x, [])), len(loads.get(x, []))
                    if n_st == n_ld == simple.get(x, 0) and n_st >= 1 and x not in nested_names:
                        uses_here = [y for y in ast.walk(nx) if isinstance(y, ast.Name) and y.id == x and isinstance(y.ctx, ast.Load)]
                        if len(uses_here) == 1:
                            use, val = uses_here[0], st.value

                            class R(ast.NodeTransformer):
                                def visit_Name(self, node):
                                    return val if node is use else node
                            blk[i + 1] = R().visit(nx)
                            del blk[i]
                            n += 1
                            changed = True
                            return True  # the counts are stale now: restart the scan of the function
                i += 1
            for s in blk:
                if isinstance(s, (ast.FunctionDef, ast.AsyncFunctionDef, ast.ClassDef)):
                    continue
                for b in blocks_of(s):
                    if do_block(b):
                        return True
            return False

        do_block(fn.body)
        if not changed:
            return n


def split_tuple_assignments(tree):
    """`a, b = x, y` -> `a = x; b = y` when no target is read by the value of another component (a swap is left alone)"""
    n = 0
    for node in ast.walk(tree):
        for f in ("body", "orelse", "finalbody"):
            blk = getattr(node, f, None)
            if not (isinstance(blk, list) and blk and isinstance(blk[0], ast.stmt)):
                continue
            i = 0
            while i < len(blk):
                st = blk[i]
                if (isinstance(st, ast.Assign) and len(st.targets) == 1 and isinstance(st.targets[0], ast.Tuple) and isinstance(st.value, ast.Tuple)
                        and len(st.targets[0].elts) == len(st.value.elts) and all(isinstance(t, ast.Name) for t in st.targets[0].elts)
                        and not any(isinstance(v, ast.Starred) for v in st.value.elts)):
                    names = [t.id for t in st.targets[0].elts]
                    # a target may be read by ITS OWN value (`acc, n = acc + x, n + 1`): sequential execution then reads the same old value;
                    # a target read by another component's value (a swap) needs the simultaneous form
                    cross = any(x.id == names[k] for k in range(len(names)) for j_, v in enumerate(st.value.elts) if j_ != k
                                for x in ast.walk(v) if isinstance(x, ast.Name))
                    if len(set(names)) == len(names) and not cross:
                        new = [ast.copy_location(ast.Assign(targets=[t], value=v), st) for t, v in zip(st.targets[0].elts, st.value.elts)]
                        blk[i:i + 1] = new
                        n += 1
                        i += len(new)
                        continue
                i += 1
    return n


def propagate_copies(tree):
    """`x = y` between two names that are each bound exactly once (y may be a parameter that is never re-bound): x is y everywhere, the
    copy disappears (what inlining a helper whose parameter is passed through leaves behind)"""
    n = 0
    for fn in [x for x in ast.walk(tree) if isinstance(x, (ast.FunctionDef, ast.AsyncFunctionDef))]:
        for _ in range(50):
            stores = {}
            for x in ast.walk(fn):
                if isinstance(x, ast.Name) and isinstance(x.ctx, (ast.Store, ast.Del)):
                    stores[x.id] = stores.get(x.id, 0) + 1
                elif isinstance(x, ast.arg):
                    stores[x.arg] = stores.get(x.arg, 0) + 1
                elif isinstance(x, (ast.Global, ast.Nonlocal)):
                    for nm in x.names:
                        stores[nm] = stores.get(nm, 0) + 2
                elif isinstance(x, (ast.MatchAs, ast.MatchStar)) and x.name:
                    stores[x.name] = stores.get(x.name, 0) + 1
                elif isinstance(x, (ast.FunctionDef, ast.AsyncFunctionDef, ast.ClassDef)) and x is not fn:
                    stores[x.name] = stores.get(x.name, 0) + 1
            done = False
            for blk_owner in ast.walk(fn):
                for f in ("body", "orelse", "finalbody"):
                    blk = getattr(blk_owner, f, None)
                    if not (isinstance(blk, list) and blk and isinstance(blk[0], ast.stmt)):
                        continue
                    for i, st in enumerate(blk):
                        if (isinstance(st, ast.Assign) and len(st.targets) == 1 and isinstance(st.targets[0], ast.Name) and isinstance(st.value, ast.Name)
                                and st.targets[0].id != st.value.id and stores.get(st.targets[0].id) == 1 and stores.get(st.value.id, 0) == 1):
                            x, y = st.targets[0].id, st.value.id
                            for nd in ast.walk(fn):
                                if isinstance(nd, ast.Name) and nd.id == x and isinstance(nd.ctx, ast.Load):
                                    nd.id = y
                            del blk[i]
                            if not blk:
                                blk.append(ast.copy_location(ast.Pass(), st))
                            n += 1
                            done = True
                            break
                    if done:
                        break
                if done:
                    break
            if not done:
                break
    return n


def flatten_starred_literals(tree):
    """`f(*(a, b))` -> `f(a, b)`, also through a name bound once to a tuple / list literal of constants (`shape = (-1, 1); x.reshape(*shape)`)"""
    n = 0
    for fn in [x for x in ast.walk(tree) if isinstance(x, (ast.FunctionDef, ast.AsyncFunctionDef))]:
        stores, lits = {}, {}
        for x in ast.walk(fn):
            if isinstance(x, ast.Name) and isinstance(x.ctx, ast.Store):
                stores[x.id] = stores.get(x.id, 0) + 1
            elif isinstance(x, ast.arg):
                stores[x.arg] = stores.get(x.arg, 0) + 1
        for st in ast.walk(fn):
            if isinstance(st, ast.Assign) and len(st.targets) == 1 and isinstance(st.targets[0], ast.Name) and isinstance(st.value, (ast.Tuple, ast.List)) \
                    and all(isinstance(e, ast.Constant) or (isinstance(e, ast.UnaryOp) and isinstance(e.operand, ast.Constant))
                            or (isinstance(e, ast.Name) and stores.get(e.id, 0) <= 1) for e in st.value.elts):
                if stores.get(st.targets[0].id) == 1:
                    lits[st.targets[0].id] = st.value
        for c in [x for x in ast.walk(fn) if isinstance(x, ast.Call)]:
            new_args, changed = [], False
            for a in c.args:
                if isinstance(a, ast.Starred) and isinstance(a.value, (ast.Tuple, ast.List)) and not any(isinstance(e, ast.Starred) for e in a.value.elts):
                    new_args += list(a.value.elts)
                    changed = True
                elif isinstance(a, ast.Starred) and isinstance(a.value, ast.Name) and a.value.id in lits:
                    new_args += [_copy(e) for e in lits[a.value.id].elts]
                    changed = True
                else:
                    new_args.append(a)
            if changed:
                c.args = new_args
                n += 1
    return n


def namedtuples_to_tuples(tree):
    """A module-level `class T(NamedTuple)` with fields only is a tuple with named positions: `T(x=a, k=b)` -> `(a, b)` and, for a local
    name that is only ever read through fields of T, `state.k` -> `state[1]`.  A loop state written as a NamedTuple then reads like the
    anonymous tuple it replaces (loop analyses work on slots)."""
    classes = {}
    for st in getattr(tree, "body", []):
        if isinstance(st, ast.ClassDef) and any((isinstance(b, ast.Name) and b.id == "NamedTuple") or (isinstance(b, ast.Attribute) and b.attr == "NamedTuple") for b in st.bases):
            body = [x for x in st.body if not (isinstance(x, ast.Expr) and isinstance(x.value, ast.Constant))]
            if body and all(isinstance(x, ast.AnnAssign) and isinstance(x.target, ast.Name) for x in body):
                classes[st.name] = ([x.target.id for x in body], {x.target.id: x.value for x in body if x.value is not None})
    if not classes:
        return 0
    # a class that is used through the namedtuple API (_replace, _make, _asdict, _fields) keeps its form
    for x in ast.walk(tree):
        if isinstance(x, ast.Attribute) and x.attr in ("_replace", "_make", "_asdict", "_fields"):
            return 0
    n = 0

    class C(ast.NodeTransformer):
        def visit_Call(self, node):
            self.generic_visit(node)
            if isinstance(node.func, ast.Name) and node.func.id in classes and not any(isinstance(a, ast.Starred) for a in node.args) and not any(k.arg is None for k in node.keywords):
                fields, defaults = classes[node.func.id]
                vals = dict(zip(fields, node.args))
                for k in node.keywords:
                    if k.arg not in fields or k.arg in vals:
                        return node
                    vals[k.arg] = k.value
                for f in fields:
                    if f not in vals:
                        if f not in defaults:
                            return node
                        vals[f] = _copy(defaults[f])
                nonlocal n
                n += 1
                return ast.copy_location(ast.Tuple(elts=[vals[f] for f in fields], ctx=ast.Load()), node)
            return node
    C().visit(tree)
    for fn in [x for x in ast.walk(tree) if isinstance(x, (ast.FunctionDef, ast.AsyncFunctionDef))]:
        attrs = {}
        for x in ast.walk(fn):
            if isinstance(x, ast.Attribute) and isinstance(x.value, ast.Name):
                attrs.setdefault(x.value.id, []).append(x)
        for name, uses in attrs.items():
            if name in ("self", "cls") or any(not isinstance(u.ctx, ast.Load) for u in uses):
                continue
            used = {u.attr for u in uses}
            owners = [t for t, (fields, _d) in classes.items() if used <= set(fields)]
            if len(owners) != 1:
                continue
            fields = classes[owners[0]][0]
            for u in uses:
                u.__class__ = ast.Subscript
                i = fields.index(u.attr)
                del u.attr
                u.slice = ast.Constant(value=i)
                n += 1
    if n:
        ast.fix_missing_locations(tree)
    return n


def unroll_literal_loops(tree):
    """`for name, build in TABLE: <body>` over a literal tuple / list of at most six entries (written in place or bound once at module level)
    -> the body once per entry with the loop variables replaced; a table-driven chain of cases then reads like the if / elif chain it encodes.
    Not unrolled: loops with break / continue / else, or whose body re-binds a loop variable."""
    module_lits = {}
    counts = {}
    for st in getattr(tree, "body", []):
        if isinstance(st, ast.Assign) and len(st.targets) == 1 and isinstance(st.targets[0], ast.Name):
            counts[st.targets[0].id] = counts.get(st.targets[0].id, 0) + 1
            if isinstance(st.value, (ast.Tuple, ast.List)):
                module_lits[st.targets[0].id] = st.value
    module_lits = {k: v for k, v in module_lits.items() if counts.get(k) == 1}
    n = 0
    for fn in [x for x in ast.walk(tree) if isinstance(x, (ast.FunctionDef, ast.AsyncFunctionDef))]:
        local_stores = {x.id for x in ast.walk(fn) if isinstance(x, ast.Name) and isinstance(x.ctx, ast.Store)} | {a.arg for a in ast.walk(fn) if isinstance(a, ast.arg)}
        for node in ast.walk(fn):
            for f in ("body", "orelse", "finalbody"):
                blk = getattr(node, f, None)
                if not (isinstance(blk, list) and blk and isinstance(blk[0], ast.stmt)):
                    continue
                i = 0
                while i < len(blk):
                    st = blk[i]
                    i += 1
                    if not isinstance(st, ast.For) or st.orelse:
                        continue
                    src = st.iter if isinstance(st.iter, (ast.Tuple, ast.List)) else (
                        module_lits.get(st.iter.id) if isinstance(st.iter, ast.Name) and st.iter.id not in local_stores else None)
                    if src is None or not (1 <= len(src.elts) <= 6) or any(isinstance(e, ast.Starred) for e in src.elts):
                        continue
                    if any(isinstance(x, (ast.Break, ast.Continue, ast.FunctionDef, ast.Lambda, ast.Yield, ast.YieldFrom)) for b_ in st.body for x in ast.walk(b_)):
                        continue
                    tnames = [st.target] if isinstance(st.target, ast.Name) else (list(st.target.elts) if isinstance(st.target, ast.Tuple) else None)
                    if tnames is None or not all(isinstance(t, ast.Name) for t in tnames):
                        continue
                    tn = [t.id for t in tnames]
                    if any(isinstance(x, ast.Name) and x.id in tn and isinstance(x.ctx, ast.Store) for b_ in st.body for x in ast.walk(b_)):
                        continue
                    # the loop variables must not be read after the loop
                    after = blk[i:]
                    if any(isinstance(x, ast.Name) and x.id in tn for a_ in after for x in ast.walk(a_)):
                        continue
                    new = []
                    ok = True
                    for e in src.elts:
                        if isinstance(st.target, ast.Tuple):
                            if not (isinstance(e, (ast.Tuple, ast.List)) and len(e.elts) == len(tn)):
                                ok = False
                                break
                            binding = dict(zip(tn, e.elts))
                        else:
                            binding = {tn[0]: e}

                        class S(ast.NodeTransformer):
                            def visit_Name(self, nd):
                                return _copy(binding[nd.id]) if isinstance(nd.ctx, ast.Load) and nd.id in binding else nd
                        new += [S().visit(_copy(b_)) for b_ in st.body]
                    if not ok:
                        continue
                    blk[i - 1:i] = new
                    i = i - 1 + len(new)
                    n += 1
    if n:
        ast.fix_missing_locations(tree)
    return n


def unroll_literal_comprehensions(tree):
    """`(f(x) for x in (a, b, c))` / `[f(x) for x in [a, b, c]]` over a literal (or a name bound once to a literal) of at most six elements
    -> `(f(a), f(b), f(c))`: element i of the result is a function of element i of the source, which element-wise rules need to see"""
    n = 0
    for fn in [x for x in ast.walk(tree) if isinstance(x, (ast.FunctionDef, ast.AsyncFunctionDef))]:
        stores, lits = {}, {}
        for x in ast.walk(fn):
            if isinstance(x, ast.Name) and isinstance(x.ctx, ast.Store):
                stores[x.id] = stores.get(x.id, 0) + 1
            elif isinstance(x, ast.arg):
                stores[x.arg] = stores.get(x.arg, 0) + 1
        for st in ast.walk(fn):
            if isinstance(st, ast.Assign) and len(st.targets) == 1 and isinstance(st.targets[0], ast.Name) and isinstance(st.value, (ast.Tuple, ast.List)) \
                    and stores.get(st.targets[0].id) == 1 and not any(isinstance(e, ast.Starred) for e in st.value.elts):
                lits[st.targets[0].id] = st.value

        class U(ast.NodeTransformer):
            def _unroll(self, node):
                self.generic_visit(node)
                if len(node.generators) != 1:
                    return node
                g = node.generators[0]
                src = g.iter if isinstance(g.iter, (ast.Tuple, ast.List)) else (lits.get(g.iter.id) if isinstance(g.iter, ast.Name) else None)
                if src is None or g.ifs or g.is_async or not isinstance(g.target, ast.Name) or not (1 <= len(src.elts) <= 6) or any(isinstance(e, ast.Starred) for e in src.elts):
                    return node
                if any(isinstance(x, (ast.Lambda, ast.ListComp, ast.GeneratorExp, ast.SetComp, ast.DictComp, ast.NamedExpr)) for x in ast.walk(node.elt)):
                    return node
                elts = []
                for e in src.elts:
                    class S(ast.NodeTransformer):
                        def visit_Name(self, nd):
                            return _copy(e) if nd.id == g.target.id and isinstance(nd.ctx, ast.Load) else nd
                    elts.append(S().visit(_copy(node.elt)))
                nonlocal n
                n += 1
                new = (ast.List if isinstance(node, ast.ListComp) else ast.Tuple)(elts=elts, ctx=ast.Load())
                return ast.copy_location(new, node)

            def visit_GeneratorExp(self, node):
                return self._unroll(node)

            def visit_ListComp(self, node):
                return self._unroll(node)

            def visit_FunctionDef(self, node):
                return node if node is not fn else self.generic_visit(node)

        U().visit(fn)
    if n:
        ast.fix_missing_locations(tree)
    return n


def merge_rebindings(tree):
    """`x = e1; x = f(x)` (adjacent, the second reads x exactly once, outside nested scopes) -> `x = f(e1)`"""
    n = 0
    for node in ast.walk(tree):
        for f in ("body", "orelse", "finalbody"):
            blk = getattr(node, f, None)
            if not (isinstance(blk, list) and blk and isinstance(blk[0], ast.stmt)):
                continue
            i = 0
            while i < len(blk) - 1:
                a, b = blk[i], blk[i + 1]
                if (isinstance(a, ast.Assign) and isinstance(b, ast.Assign) and len(a.targets) == 1 and len(b.targets) == 1 and isinstance(a.targets[0], ast.Name)
                        and isinstance(b.targets[0], ast.Name) and a.targets[0].id == b.targets[0].id and not isinstance(a.value, (ast.Lambda, ast.Yield, ast.YieldFrom, ast.Await))):
                    x = a.targets[0].id
                    uses, nested = [], False
                    stack = [(b.value, False)]
                    while stack:
                        e, inner = stack.pop()
                        for c in ast.iter_child_nodes(e):
                            inn = inner or isinstance(c, SCOPES)
                            if isinstance(c, ast.Name) and c.id == x and isinstance(c.ctx, ast.Load):
                                uses.append(c)
                                nested = nested or inn
                            stack.append((c, inn))
                    if isinstance(b.value, ast.Name) and b.value.id == x:
                        uses = [b.value]
                    if len(uses) == 1 and not nested and not any(isinstance(y, ast.Name) and y.id == x for y in ast.walk(a.value)):
                        use, val = uses[0], a.value

                        class R(ast.NodeTransformer):
                            def visit_Name(self, nd):
                                return val if nd is use else nd
                        b.value = R().visit(b.value) if b.value is not use else val
                        del blk[i]
                        n += 1
                        continue
                i += 1
    return n


def version_rebindings(tree):
    """straight-line single assignment: a local that is assigned several times, always by a plain statement in the top-level statement
    list of its function (never in a branch, a loop, a nested scope, an augmented assignment or a deletion), gets a new name at
    each assignment after the first (`X = cast(X)` on a parameter, `v = f(v)` chains, what inlining a helper that re-binds its
    parameter leaves behind).  Reads are renamed to the version current at their statement."""
    n = 0
    for fn in [x for x in ast.walk(tree) if isinstance(x, (ast.FunctionDef, ast.AsyncFunctionDef))]:
        top = fn.body
        params = {a.arg for a in fn.args.posonlyargs + fn.args.args + fn.args.kwonlyargs} | ({fn.args.vararg.arg} if fn.args.vararg else set()) | \
            ({fn.args.kwarg.arg} if fn.args.kwarg else set())
        top_store_stmts = {}  # name -> [index of top-level simple statement that stores it]
        bad = set()
        for i, st in enumerate(top):
            simple_st = isinstance(st, (ast.Assign, ast.AnnAssign)) and not (isinstance(st, ast.AnnAssign) and st.value is None)
            for x in ast.walk(st):
                if isinstance(x, (ast.FunctionDef, ast.AsyncFunctionDef, ast.Lambda, ast.ClassDef)):
                    # names used inside nested scopes are read when the closure runs, not where it is written
                    bad |= {y.id for y in ast.walk(x) if isinstance(y, ast.Name)}
                if isinstance(x, (ast.Global, ast.Nonlocal)):
                    bad |= set(x.names)
                if isinstance(x, (ast.MatchAs, ast.MatchStar)) and x.name:
                    bad.add(x.name)
                if isinstance(x, ast.NamedExpr) and isinstance(x.target, ast.Name):
                    bad.add(x.target.id)
                if isinstance(x, ast.Name) and isinstance(x.ctx, (ast.Store, ast.Del)):
                    in_target = simple_st and any(x is t or any(x is y for y in ast.walk(t)) for t in (st.targets if isinstance(st, ast.Assign) else [st.target]))
                    if isinstance(x.ctx, ast.Del) or not in_target:
                        bad.add(x.id)  # stored by a loop header, a with-item, a comprehension, an augmented assignment, inside a branch ...
                    else:
                        top_store_stmts.setdefault(x.id, []).append(i)
            if isinstance(st, (ast.FunctionDef, ast.AsyncFunctionDef, ast.ClassDef)):
                bad.add(st.name)
            if isinstance(st, ast.AugAssign):
                bad |= {y.id for y in ast.walk(st.target) if isinstance(y, ast.Name)}
        cands = {nm for nm, idxs in top_store_stmts.items() if nm not in bad and (len(idxs) + (1 if nm in params else 0)) > 1 and len(set(idxs)) == len(idxs)}
        if not cands:
            continue
        current = {}
        count = {nm: 0 for nm in cands}
        for i, st in enumerate(top):
            # reads of this statement see the versions current before it
            stores_here = []
            for x in ast.walk(st):
                if isinstance(x, ast.Name) and x.id in cands:
                    if isinstance(x.ctx, ast.Load):
                        if x.id in current:
                            x.id = current[x.id]
                    else:
                        stores_here.append(x)
            for x in stores_here:
                nm = x.id
                first = count[nm] == 0 and nm not in params
                count[nm] += 1
                if first:
                    continue
                new = f"{nm}__{count[nm]}"
                current[nm] = new
                x.id = new
                n += 1
    return n


def coalesce_copies(tree):
    """`y = p` at the top level of a function where p is never used again and y is not used before: y IS p from there on (the fresh
    local a helper's re-bound parameter became when the helper was inlined).  y is renamed to p and the copy disappears, which gives
    back `for M in Ms: v = v @ M`."""
    n = 0
    for fn in [x for x in ast.walk(tree) if isinstance(x, (ast.FunctionDef, ast.AsyncFunctionDef))]:
        changed = True
        while changed:
            changed = False
            nested_names = set()  # names BOUND in a nested scope (reading the enclosing variable from a closure is renamed along)
            for x in ast.walk(fn):
                if isinstance(x, (ast.FunctionDef, ast.AsyncFunctionDef, ast.Lambda)) and x is not fn:
                    nested_names |= _Subst._fn_locals(x)
                    if not isinstance(x, ast.Lambda):
                        nested_names.add(x.name)
                elif isinstance(x, ast.ClassDef):
                    nested_names |= {y.id for y in ast.walk(x) if isinstance(y, ast.Name)}
                elif isinstance(x, (ast.ListComp, ast.SetComp, ast.DictComp, ast.GeneratorExp)):
                    nested_names |= {y.id for g in x.generators for y in ast.walk(g.target) if isinstance(y, ast.Name)}
            for i, st in enumerate(fn.body):
                if not (isinstance(st, ast.Assign) and len(st.targets) == 1 and isinstance(st.targets[0], ast.Name) and isinstance(st.value, ast.Name)):
                    continue
                y, p_ = st.targets[0].id, st.value.id
                if y == p_ or y in nested_names or p_ in nested_names:
                    continue
                before = [x for s_ in fn.body[:i] for x in ast.walk(s_) if isinstance(x, ast.Name)]
                after = [x for s_ in fn.body[i + 1:] for x in ast.walk(s_) if isinstance(x, ast.Name)]
                args_ = {a.arg for a in fn.args.posonlyargs + fn.args.args + fn.args.kwonlyargs}
                if any(x.id == y for x in before) or y in args_ or any(x.id == p_ for x in after):
                    continue
                for x in after:
                    if x.id == y:
                        x.id = p_
                del fn.body[i]
                if not fn.body:
                    fn.body.append(ast.copy_location(ast.Pass(), st))
                n += 1
                changed = True
                break
    return n


def sink_return_into_branches(tree):
    """`if c: n = a` / `else: n = b` immediately followed by `return E(n)` -> `if c: return E(a)` / `else: return E(b)` when a and b are
    plain references (or n is read once) and n is read nowhere else: a conditionally chosen constructor / function / operand
    (`wrap = Adjoint if .. else Transpose; return wrap(x)`) becomes one exit per choice"""
    n_done = 0

    def plain(e):
        return isinstance(e, (ast.Name, ast.Constant)) or (isinstance(e, ast.Attribute) and plain(e.value))

    for fn in [x for x in ast.walk(tree) if isinstance(x, (ast.FunctionDef, ast.AsyncFunctionDef))]:
        changed = True
        while changed:
            changed = False
            for owner in ast.walk(fn):
                for f in ("body", "orelse", "finalbody"):
                    blk = getattr(owner, f, None)
                    if not (isinstance(blk, list) and blk and isinstance(blk[0], ast.stmt)):
                        continue
                    for i in range(len(blk) - 1):
                        st, nxt = blk[i], blk[i + 1]
                        if not (isinstance(st, ast.If) and isinstance(nxt, ast.Return) and nxt.value is not None and len(st.body) == 1 and len(st.orelse) == 1):
                            continue
                        a_, b_ = st.body[0], st.orelse[0]
                        if not all(isinstance(x, ast.Assign) and len(x.targets) == 1 and isinstance(x.targets[0], ast.Name) for x in (a_, b_)):
                            continue
                        nm = a_.targets[0].id
                        if b_.targets[0].id != nm:
                            continue
                        uses_ret = [x for x in ast.walk(nxt.value) if isinstance(x, ast.Name) and x.id == nm]
                        all_refs = [x for x in ast.walk(fn) if isinstance(x, ast.Name) and x.id == nm]
                        if not uses_ret or len(all_refs) != len(uses_ret) + 2:
                            continue
                        if any(isinstance(x, (ast.Lambda, ast.ListComp, ast.GeneratorExp, ast.SetComp, ast.DictComp)) and any(isinstance(y, ast.Name) and y.id == nm for y in ast.walk(x))
                               for x in ast.walk(nxt.value)):
                            continue
                        if not ((plain(a_.value) and plain(b_.value)) or len(uses_ret) == 1):
                            continue
                        ra = ast.Return(value=_Subst({nm: a_.value}).visit(_copy(nxt.value)))
                        rb = ast.Return(value=_Subst({nm: b_.value}).visit(_copy(nxt.value)))
                        ast.copy_location(ra, a_)
                        ast.copy_location(rb, b_)
                        st.body, st.orelse = [ra], [rb]
                        del blk[i + 1]
                        ast.fix_missing_locations(st)
                        n_done += 1
                        changed = True
                        break
                    if changed:
                        break
                if changed:
                    break
    return n_done


def _temps_and_tuples(tree):
    total = unroll_literal_comprehensions(tree) + flatten_starred_literals(tree) + merge_rebindings(tree) + coalesce_copies(tree) + version_rebindings(tree) + propagate_copies(tree)
    # temporaries first: `t1 = e1; t2 = e2; a, b = t1, t2` must become `a, b = e1, e2` before deciding whether that assignment splits
    for _round in range(2):
        for x in ast.walk(tree):
            if isinstance(x, (ast.FunctionDef, ast.AsyncFunctionDef)):
                total += _process_function(x)
        if _round == 0:
            if not split_tuple_assignments(tree):
                break
            ast.fix_missing_locations(tree)
    total += sink_return_into_branches(tree)
    return total


def flatten_internal_bases(tree):
    """a class whose direct base is an INTERNAL class of the same module (name with a leading underscore: a mixin / template extracted
    from several operator classes) receives copies of the methods it inherits from it: every operator class then carries its own
    constructor and helpers again, where the hooks it overrides (`self._combined_shape(..)`) are resolved.  Zero-argument super() in a
    copied method is spelled out as super(Base, self): it must keep meaning "after Base"."""
    classes = {c.name: c for c in tree.body if isinstance(c, ast.ClassDef)}
    n = 0

    def base_name(b):
        return ast.unparse(b).split("[")[0].split(".")[-1]

    def inherited(cname, seen=()):
        """[(defining class, FunctionDef)] along the chain of internal bases, nearest first"""
        out = []
        c = classes[cname]
        for b in c.bases:
            bn = base_name(b)
            if bn in classes and bn not in seen and bn.startswith("_") and not bn.startswith("__"):
                out += [(bn, m) for m in classes[bn].body if isinstance(m, ast.FunctionDef)]
                out += inherited(bn, seen + (cname, ))
                break
        return out

    for cname, c in classes.items():
        if cname.startswith("_") and not cname.startswith("__"):
            continue  # the internal bases themselves stay as they are
        own = {m.name for m in c.body if isinstance(m, ast.FunctionDef)}
        new_methods = []
        for bn, m in inherited(cname):
            if m.name in own:
                continue
            decos = [ast.unparse(d) for d in m.decorator_list]
            if any(d not in ("staticmethod", ) for d in decos):
                continue
            own.add(m.name)
            cp = _copy(m)
            if "staticmethod" not in decos and cp.args.args:
                selfname = cp.args.args[0].arg
                for x in ast.walk(cp):
                    if isinstance(x, ast.Call) and isinstance(x.func, ast.Name) and x.func.id == "super" and not x.args:
                        x.args = [ast.Name(id=bn, ctx=ast.Load()), ast.Name(id=selfname, ctx=ast.Load())]
            new_methods.append(cp)
            n += 1
        if new_methods:
            # after the class-level assignments / docstring, before the class's own methods
            k = next((i for i, st in enumerate(c.body) if isinstance(st, ast.FunctionDef)), len(c.body))
            c.body[k:k] = new_methods
    if n:
        ast.fix_missing_locations(tree)
    return n


def generators_to_expressions(tree):
    """a generator function whose whole body is one loop nest ending in a single `yield e` (`for t in it: [if c:] yield e`) returns what
    the generator expression `(e for t in it if c)` returns; and `f(*(e for ..))` / `f(*g())` unpacks exactly the elements of
    `f(*[e for ..])`.  Both are rewritten so that a helper written as a generator reads like the comprehension it stands for."""
    n = 0
    for fn in ast.walk(tree):
        if not isinstance(fn, ast.FunctionDef):
            continue
        body = [st for st in fn.body if not (isinstance(st, ast.Expr) and isinstance(st.value, ast.Constant) and isinstance(st.value.value, str))]
        if len(body) != 1 or not isinstance(body[0], ast.For):
            continue
        yields = [x for st in fn.body for x in _own_walk(st) if isinstance(x, (ast.Yield, ast.YieldFrom))]
        if len(yields) != 1 or not isinstance(yields[0], ast.Yield) or yields[0].value is None:
            continue
        gens, cur, ok = [], body[0], True
        while True:
            if isinstance(cur, ast.For) and not cur.orelse and len(cur.body) == 1:
                gens.append(ast.comprehension(target=cur.target, iter=cur.iter, ifs=[], is_async=0))
                cur = cur.body[0]
            elif isinstance(cur, ast.If) and not cur.orelse and len(cur.body) == 1 and gens:
                gens[-1].ifs.append(cur.test)
                cur = cur.body[0]
            else:
                break
        if not (isinstance(cur, ast.Expr) and cur.value is yields[0]) or not gens:
            continue
        ret = ast.copy_location(ast.Return(value=ast.GeneratorExp(elt=yields[0].value, generators=gens)), body[0])
        fn.body = [st for st in fn.body if st is not body[0]] + [ret]
        ast.fix_missing_locations(ret)
        n += 1
    for node in ast.walk(tree):
        if isinstance(node, ast.Starred) and isinstance(node.value, ast.GeneratorExp) and isinstance(getattr(node, "ctx", None), ast.Load):
            g = node.value
            node.value = ast.copy_location(ast.ListComp(elt=g.elt, generators=g.generators), g)
            n += 1
    return n


def hoist_walrus(tree):
    """`if (x := e):` / `if (x := e) > 1:` / `if not (x := e):` -> `x = e` followed by the test on x: the assignment expression is the
    first thing the test evaluates, so binding it in a statement of its own changes nothing"""
    n = 0
    for owner in ast.walk(tree):
        for f in ("body", "orelse", "finalbody"):
            blk = getattr(owner, f, None)
            if not (isinstance(blk, list) and blk and isinstance(blk[0], ast.stmt)):
                continue
            i = 0
            while i < len(blk):
                st = blk[i]
                if isinstance(st, ast.If):
                    t = st.test
                    holder, attr = None, None
                    if isinstance(t, ast.NamedExpr):
                        holder, attr = st, "test"
                    elif isinstance(t, ast.Compare) and isinstance(t.left, ast.NamedExpr):
                        holder, attr = t, "left"
                    elif isinstance(t, ast.UnaryOp) and isinstance(t.op, ast.Not) and isinstance(t.operand, ast.NamedExpr):
                        holder, attr = t, "operand"
                    elif isinstance(t, ast.BoolOp) and isinstance(t.values[0], ast.NamedExpr):
                        holder, attr = t.values, 0
                    if holder is not None:
                        ne = holder[attr] if isinstance(holder, list) else getattr(holder, attr)
                        if isinstance(ne.target, ast.Name) and not any(isinstance(x, ast.NamedExpr) for x in ast.walk(ne.value)):
                            assign = ast.copy_location(ast.Assign(targets=[ast.Name(id=ne.target.id, ctx=ast.Store())], value=ne.value), st)
                            ref = ast.copy_location(ast.Name(id=ne.target.id, ctx=ast.Load()), ne)
                            if isinstance(holder, list):
                                holder[attr] = ref
                            else:
                                setattr(holder, attr, ref)
                            ast.fix_missing_locations(assign)
                            blk.insert(i, assign)
                            n += 1
                            i += 1
                i += 1
    return n


def apply_partials(tree):
    """`g = partial(f, a, k=e)` where the local g is bound once and only ever CALLED: every `g(x, j=y)` becomes `f(a, x, k=e, j=y)` and
    the binding disappears.  The bound expressions must be plain references to names that are bound once (a partial evaluates them when
    it is created, the call site when it is reached)."""
    n = 0

    def plain(e):
        return isinstance(e, (ast.Name, ast.Constant)) or (isinstance(e, ast.Attribute) and plain(e.value))

    for fn in [x for x in ast.walk(tree) if isinstance(x, (ast.FunctionDef, ast.AsyncFunctionDef))]:
        changed = True
        while changed:
            changed = False
            stores = {}
            for x in ast.walk(fn):
                if isinstance(x, ast.Name) and isinstance(x.ctx, (ast.Store, ast.Del)):
                    stores[x.id] = stores.get(x.id, 0) + 1
                elif isinstance(x, ast.arg):
                    stores[x.arg] = stores.get(x.arg, 0) + 1
                elif isinstance(x, (ast.FunctionDef, ast.AsyncFunctionDef, ast.ClassDef)) and x is not fn:
                    stores[x.name] = stores.get(x.name, 0) + 1
            for i, st in enumerate(fn.body):
                if not (isinstance(st, ast.Assign) and len(st.targets) == 1 and isinstance(st.targets[0], ast.Name) and isinstance(st.value, ast.Call)):
                    continue
                c = st.value
                fname = c.func.id if isinstance(c.func, ast.Name) else (c.func.attr if isinstance(c.func, ast.Attribute) and isinstance(c.func.value, ast.Name) and c.func.value.id == "functools" else None)
                if fname != "partial" or not c.args or any(isinstance(x, ast.Starred) for x in c.args) or any(k.arg is None for k in c.keywords):
                    continue
                g = st.targets[0].id
                if stores.get(g) != 1 or not all(plain(a) for a in c.args) or not all(plain(k.value) for k in c.keywords):
                    continue
                if any(stores.get(x.id, 0) > 1 for e in list(c.args) + [k.value for k in c.keywords] for x in ast.walk(e) if isinstance(x, ast.Name)):
                    continue
                loads = [x for x in ast.walk(fn) if isinstance(x, ast.Name) and x.id == g and isinstance(x.ctx, ast.Load)]
                calls = [x for x in ast.walk(fn) if isinstance(x, ast.Call) and isinstance(x.func, ast.Name) and x.func.id == g]
                if not calls or len(loads) != len(calls):
                    continue
                bound_kw = {k.arg for k in c.keywords}
                if any(any(k.arg is None or k.arg in bound_kw for k in x.keywords) or any(isinstance(a, ast.Starred) for a in x.args) for x in calls):
                    continue  # overriding a bound keyword / star arguments: left as it is
                for x in calls:
                    x.func = _copy(c.args[0])
                    x.args = [_copy(a) for a in c.args[1:]] + list(x.args)
                    x.keywords = [ast.keyword(arg=k.arg, value=_copy(k.value)) for k in c.keywords] + list(x.keywords)
                del fn.body[i]
                if not fn.body:
                    fn.body.append(ast.copy_location(ast.Pass(), st))
                ast.fix_missing_locations(fn)
                n += 1
                changed = True
                break
    return n


def tables_to_branches(tree):
    """`return TABLE[key](args)` / `x = TABLE[key](args)` with TABLE a module-level dict literal from constants to plain names that is
    only ever subscripted: the lookup is written out as the if / elif chain it stands for (`if key == 'SM': return head(args)` ...,
    `else: raise KeyError(key)`), so that a dispatch table reads like the branches it replaced"""
    tables = {}
    for st in tree.body:
        if isinstance(st, ast.Assign) and len(st.targets) == 1 and isinstance(st.targets[0], ast.Name) and isinstance(st.value, ast.Dict) and st.value.keys \
                and all(isinstance(k, ast.Constant) and isinstance(k.value, (str, int, bool, type(None))) for k in st.value.keys) \
                and all(isinstance(v, ast.Name) or (isinstance(v, ast.Attribute) and isinstance(v.value, ast.Name)) for v in st.value.values):
            tables[st.targets[0].id] = st.value
    if not tables:
        return 0
    # every other reference must be a subscript load
    for x in ast.walk(tree):
        if isinstance(x, ast.Name) and x.id in tables:
            pass
    parents = {}
    for par in ast.walk(tree):
        for ch in ast.iter_child_nodes(par):
            parents[id(ch)] = par
    for x in ast.walk(tree):
        if isinstance(x, ast.Name) and x.id in tables:
            par = parents.get(id(x))
            is_def = isinstance(par, ast.Assign) and par in tree.body and x in par.targets
            is_lookup = isinstance(par, ast.Subscript) and par.value is x and isinstance(x.ctx, ast.Load) and isinstance(par.ctx, ast.Load)
            if not (is_def or is_lookup):
                tables.pop(x.id, None)
    if not tables:
        return 0
    n = 0

    def simple_key(e):
        return isinstance(e, (ast.Name, ast.Constant)) or (isinstance(e, ast.Attribute) and simple_key(e.value))

    for owner in ast.walk(tree):
        for f in ("body", "orelse", "finalbody"):
            blk = getattr(owner, f, None)
            if not (isinstance(blk, list) and blk and isinstance(blk[0], ast.stmt)) or owner is tree:
                continue
            for i, st in enumerate(list(blk)):
                val = st.value if isinstance(st, (ast.Return, ast.Assign)) else None
                if not (isinstance(val, ast.Call) and isinstance(val.func, ast.Subscript) and isinstance(val.func.value, ast.Name) and val.func.value.id in tables
                        and simple_key(val.func.slice)):
                    continue
                if isinstance(st, ast.Assign) and not (len(st.targets) == 1 and isinstance(st.targets[0], ast.Name)):
                    continue
                d = tables[val.func.value.id]
                key = val.func.slice
                chain = None
                for k, v in reversed(list(zip(d.keys, d.values))):
                    call = ast.Call(func=_copy(v), args=[_copy(a) for a in val.args], keywords=[_copy(kw) for kw in val.keywords])
                    leaf = ast.Return(value=call) if isinstance(st, ast.Return) else ast.Assign(targets=[_copy(st.targets[0])], value=call)
                    test = ast.Compare(left=_copy(key), ops=[ast.Eq()], comparators=[_copy(k)])
                    if chain is None:
                        chain = [ast.Raise(exc=ast.Call(func=ast.Name(id="KeyError", ctx=ast.Load()), args=[_copy(key)], keywords=[]), cause=None)]
                    chain = [ast.If(test=test, body=[leaf], orelse=chain)]
                new = chain[0]
                ast.copy_location(new, st)
                ast.fix_missing_locations(new)
                blk[blk.index(st)] = new
                n += 1
    return n


def _ensure_nf_imports(tree):
    """`import math as _nf_math` when a rewrite introduced `_nf_math.prod(..)`"""
    if not any(isinstance(x, ast.Name) and x.id == "_nf_math" for x in ast.walk(tree)):
        return
    if any(isinstance(st, ast.Import) and any(al.asname == "_nf_math" for al in st.names) for st in tree.body):
        return
    k = 0
    while k < len(tree.body) and ((isinstance(tree.body[k], ast.Expr) and isinstance(tree.body[k].value, ast.Constant)) or
                                  (isinstance(tree.body[k], ast.ImportFrom) and tree.body[k].module == "__future__")):
        k += 1
    imp = ast.Import(names=[ast.alias(name="math", asname="_nf_math")])
    tree.body.insert(k, imp)
    ast.fix_missing_locations(tree)


def normalise(tree):
    """in place; returns the number of rewrites.  Order: temporaries and tuple assignments, append loops, private helpers
    (whose bodies are then already in normal form), and temporaries / tuples once more for what the inlining exposed"""
    total = flatten_internal_bases(tree) + generators_to_expressions(tree) + hoist_walrus(tree) + tables_to_branches(tree) + namedtuples_to_tuples(tree) + unroll_literal_loops(tree) + apply_partials(tree) + partials_to_defs(tree) + split_on_shared_predicates(tree) + split_conditional_returns(tree)
    ast.fix_missing_locations(tree)
    total += _temps_and_tuples(tree)
    n = append_loops_to_comprehensions(tree) + fuse_comprehensions(tree)
    ast.fix_missing_locations(tree)
    n += inline_helpers(tree)
    ast.fix_missing_locations(tree)
    while n:
        total += n + fold_constants(tree) + split_conditional_returns(tree) + _temps_and_tuples(tree)
        n = append_loops_to_comprehensions(tree) + fuse_comprehensions(tree)
        ast.fix_missing_locations(tree)
    _ensure_nf_imports(tree)
    return total


def split_conditional_returns(tree):
    """conditional expressions are lifted to statement level: `return f(X if c else Y)` -> `if c: return f(X)` / `else: return f(Y)`, and the
    same for assignments and expression statements, so that the cases of a function are branches of statements whichever way they were
    written, and per-exit rules (guards, tuple roles, constructed algorithms) see each case on its own.  Not lifted: conditionals
    inside lambdas, comprehensions, boolean operators (short-circuit) or another conditional's test; at most three per statement."""
    n = 0

    def liftable(st):
        """the first conditional expression of st that is evaluated unconditionally, or None"""
        roots = []
        if isinstance(st, ast.Return) and st.value is not None:
            roots = [st.value]
        elif isinstance(st, (ast.Assign, ast.AugAssign, ast.AnnAssign)) and getattr(st, "value", None) is not None:
            roots = [st.value]
        elif isinstance(st, ast.Expr):
            roots = [st.value]
        found = []

        def walk(e):
            if found or isinstance(e, (ast.Lambda, ast.ListComp, ast.SetComp, ast.DictComp, ast.GeneratorExp, ast.BoolOp, ast.NamedExpr, ast.Yield, ast.YieldFrom, ast.Await)):
                return
            if isinstance(e, ast.IfExp):
                found.append(e)
                return
            if isinstance(e, ast.Compare) and len(e.ops) > 1:
                return
            for c in ast.iter_child_nodes(e):
                if isinstance(c, (ast.expr, ast.keyword, ast.Starred)) or isinstance(c, ast.AST) and not isinstance(c, (ast.expr_context, ast.operator, ast.unaryop, ast.cmpop, ast.boolop)):
                    walk(c)
        for r in roots:
            walk(r)
        return found[0] if found else None

    def replace(st, target, by):
        class R(ast.NodeTransformer):
            def visit_IfExp(self, node):
                if node is target:
                    return by
                return self.generic_visit(node)
        return R().visit(st)

    def lift(st, budget):
        e = liftable(st) if budget > 0 else None
        if e is None:
            return [st]
        import copy
        memo_t = {id(e): e}
        st_true = copy.deepcopy(st, memo_t)  # the target node itself is shared so that it can be found in the copy
        st_false = copy.deepcopy(st, {id(e): e})
        a = replace(st_true, e, copy.deepcopy(e.body))
        b = replace(st_false, e, copy.deepcopy(e.orelse))
        new = ast.If(test=copy.deepcopy(e.test), body=lift(a, budget - 1), orelse=lift(b, budget - 1))
        ast.copy_location(new, st)
        return [new]

    for node in ast.walk(tree):
        for f in ("body", "orelse", "finalbody"):
            blk = getattr(node, f, None)
            if not (isinstance(blk, list) and blk and isinstance(blk[0], ast.stmt)):
                continue
            i = 0
            while i < len(blk):
                st = blk[i]
                if isinstance(st, (ast.Return, ast.Assign, ast.AugAssign, ast.AnnAssign, ast.Expr)) and liftable(st) is not None:
                    new = lift(st, 3)
                    if not (len(new) == 1 and new[0] is st):
                        blk[i:i + 1] = new
                        n += 1
                i += 1
    if n:
        ast.fix_missing_locations(tree)
    return n


def partials_to_defs(tree):
    """`g = partial(f, k=e)` with f a function of this module  ->  `def g(<the parameters left>): return f(<them>, k=e)`: the closure the
    partial stands for, so that analyses of callbacks (loop conditions, bodies) see a function.  Only when every bound expression is
    made of names that are bound once (a partial evaluates them when it is created, the closure when it is called)."""
    module_fns = {st.name: st for st in tree.body if isinstance(st, ast.FunctionDef)}
    n = 0
    for fn in [x for x in ast.walk(tree) if isinstance(x, (ast.FunctionDef, ast.AsyncFunctionDef))]:
        stores = {}
        for x in ast.walk(fn):
            if isinstance(x, ast.Name) and isinstance(x.ctx, ast.Store):
                stores[x.id] = stores.get(x.id, 0) + 1
            elif isinstance(x, ast.arg):
                stores[x.arg] = stores.get(x.arg, 0) + 1
            elif isinstance(x, ast.AugAssign) and isinstance(x.target, ast.Name):
                stores[x.target.id] = stores.get(x.target.id, 0) + 1
        for i, st in enumerate(list(fn.body)):
            if not any(st is x for x in fn.body):
                continue
            i = next(k for k, x in enumerate(fn.body) if x is st)
            if not (isinstance(st, ast.Assign) and len(st.targets) == 1 and isinstance(st.targets[0], ast.Name) and isinstance(st.value, ast.Call)):
                continue
            c = st.value
            # `xnp.jit(partial(..))`: the decorator form of the same closure
            deco = None
            if isinstance(c.func, ast.Attribute) and c.func.attr == "jit" and len(c.args) == 1 and not c.keywords and isinstance(c.args[0], ast.Call):
                deco, c = c.func, c.args[0]
            fname = c.func.id if isinstance(c.func, ast.Name) else (c.func.attr if isinstance(c.func, ast.Attribute) and isinstance(c.func.value, ast.Name) and c.func.value.id == "functools" else None)
            if fname != "partial" or not c.args or not isinstance(c.args[0], ast.Name) or c.args[0].id not in module_fns:
                continue
            target = module_fns[c.args[0].id]
            a = target.args
            if a.vararg or a.kwarg or a.posonlyargs or target.decorator_list or any(isinstance(x, ast.Starred) for x in c.args) or any(k.arg is None for k in c.keywords):
                continue
            if stores.get(st.targets[0].id) != 1 or stores.get(c.args[0].id):
                continue
            params = [p.arg for p in a.args]
            bound = dict(zip(params, c.args[1:]))
            if len(c.args) - 1 > len(params) or any(k.arg in bound or k.arg not in params + [p.arg for p in a.kwonlyargs] for k in c.keywords):
                continue
            bound.update({k.arg: k.value for k in c.keywords})
            if any(isinstance(x, (ast.Lambda, ast.Yield, ast.Await, ast.NamedExpr)) for e in bound.values() for x in ast.walk(e)):
                continue
            # a partial evaluates what it binds when it is created: anything but a reference to a name bound once is evaluated here, into
            # a fresh local the closure then reads
            hoisted = []
            for k_, e_ in list(bound.items()):
                plain_ = isinstance(e_, ast.Constant) or (isinstance(e_, ast.Name) and stores.get(e_.id, 0) <= 1)
                if not plain_:
                    fresh = f"_pb_{st.targets[0].id}_{k_}"
                    hoisted.append(ast.copy_location(ast.Assign(targets=[ast.Name(id=fresh, ctx=ast.Store())], value=e_), st))
                    bound[k_] = ast.Name(id=fresh, ctx=ast.Load())
            n_def = len(a.defaults)
            required = params[:len(params) - n_def] if n_def else params
            left = [p for p in required if p not in bound]
            if any(p in bound for p in params[:len(left)]) and False:
                continue
            call = ast.Call(func=ast.Name(id=target.name, ctx=ast.Load()), args=[], keywords=[ast.keyword(arg=p, value=ast.Name(id=p, ctx=ast.Load())) for p in left]
                            + [ast.keyword(arg=k, value=_copy(v)) for k, v in bound.items()])
            new = ast.FunctionDef(name=st.targets[0].id, args=ast.arguments(posonlyargs=[], args=[ast.arg(arg=p) for p in left], vararg=None, kwonlyargs=[], kw_defaults=[], kwarg=None, defaults=[]),
                                  body=[ast.Return(value=call)], decorator_list=[_copy(deco)] if deco is not None else [], returns=None, type_comment=None, type_params=[])
            ast.copy_location(new, st)
            ast.fix_missing_locations(new)
            for h_ in hoisted:
                ast.fix_missing_locations(h_)
            fn.body[i:i + 1] = hoisted + [new]
            n += 1
    return n


class _Fold(ast.NodeTransformer):
    """conditionals on literal constants (what inlining a helper called with `flag=True` leaves behind) are resolved"""
    def __init__(self, never_none=()):
        self.n = 0
        self.never_none = set(never_none)

    def visit_UnaryOp(self, node):
        self.generic_visit(node)
        if isinstance(node.op, ast.Not) and isinstance(node.operand, ast.Constant) and isinstance(node.operand.value, bool):
            self.n += 1
            return ast.copy_location(ast.Constant(value=not node.operand.value), node)
        return node

    @staticmethod
    def _literal(e):
        """(True, value) for a literal number / string / bool / None, a negated number, or a tuple / list / set of such"""
        if isinstance(e, ast.Constant) and isinstance(e.value, (int, float, str, bool, type(None))):
            return True, e.value
        if isinstance(e, ast.UnaryOp) and isinstance(e.op, ast.USub) and isinstance(e.operand, ast.Constant) and isinstance(e.operand.value, (int, float)) \
                and not isinstance(e.operand.value, bool):
            return True, -e.operand.value
        if isinstance(e, (ast.Tuple, ast.List, ast.Set)):
            vals = [_Fold._literal(x) for x in e.elts]
            if all(v[0] for v in vals):
                return True, tuple(v[1] for v in vals)
        return False, None

    def visit_Compare(self, node):
        self.generic_visit(node)
        if len(node.ops) == 1 and isinstance(node.ops[0], (ast.Eq, ast.NotEq, ast.Lt, ast.LtE, ast.Gt, ast.GtE, ast.In, ast.NotIn)):
            (lk, lv), (rk, rv) = self._literal(node.left), self._literal(node.comparators[0])
            if lk and rk and not (isinstance(node.left, (ast.Tuple, ast.List, ast.Set))):
                try:
                    op = node.ops[0]
                    if isinstance(op, (ast.In, ast.NotIn)):
                        if not isinstance(rv, tuple):
                            raise TypeError
                        val = (lv in rv) if isinstance(op, ast.In) else (lv not in rv)
                    else:
                        val = {ast.Eq: lambda a, b: a == b, ast.NotEq: lambda a, b: a != b, ast.Lt: lambda a, b: a < b, ast.LtE: lambda a, b: a <= b,
                               ast.Gt: lambda a, b: a > b, ast.GtE: lambda a, b: a >= b}[type(op)](lv, rv)
                    self.n += 1
                    return ast.copy_location(ast.Constant(value=bool(val)), node)
                except TypeError:
                    pass
        if len(node.ops) == 1 and isinstance(node.ops[0], (ast.Is, ast.IsNot)):
            l, r = node.left, node.comparators[0]
            for x, y in ((l, r), (r, l)):
                if isinstance(y, ast.Constant) and y.value is None:
                    known = None
                    if isinstance(x, ast.Constant):
                        known = x.value is None
                    elif isinstance(x, ast.Name) and x.id in self.never_none:
                        known = False  # a class / function / module of this module's namespace
                    if known is not None:
                        self.n += 1
                        return ast.copy_location(ast.Constant(value=known if isinstance(node.ops[0], ast.Is) else not known), node)
        return node

    def visit_IfExp(self, node):
        self.generic_visit(node)
        if isinstance(node.test, ast.Constant) and isinstance(node.test.value, (bool, type(None))):
            self.n += 1
            return node.body if node.test.value else node.orelse
        return node

    def _block(self, blk):
        out = []
        for st in blk:
            r = self.visit(st)
            if isinstance(r, ast.If) and isinstance(r.test, ast.Constant) and isinstance(r.test.value, (bool, type(None))):
                self.n += 1
                out += r.body if r.test.value else r.orelse
            elif isinstance(r, ast.Assert) and isinstance(r.test, ast.Constant) and r.test.value is True:
                self.n += 1  # an assertion that holds by construction
            elif r is not None:
                out.append(r)
        return out or [ast.copy_location(ast.Pass(), blk[0])] if blk else out

    def generic_visit(self, node):
        for f in ("body", "orelse", "finalbody"):
            b = getattr(node, f, None)
            if isinstance(b, list) and b and isinstance(b[0], ast.stmt):
                setattr(node, f, self._block(b))
        for f, v in ast.iter_fields(node):
            if f in ("body", "orelse", "finalbody") and isinstance(v, list) and v and isinstance(v[0], ast.stmt):
                continue
            if isinstance(v, list):
                new = []
                for x in v:
                    if isinstance(x, ast.AST):
                        x = self.visit(x)
                        if x is None:
                            continue
                    new.append(x)
                v[:] = new
            elif isinstance(v, ast.AST):
                r = self.visit(v)
                if r is None:
                    delattr(node, f)
                else:
                    setattr(node, f, r)
        return node


def fold_constants(tree):
    # module-level names bound by def / class / import only (never re-bound): they are never None
    bound, rebound = set(), set()
    for st in getattr(tree, "body", []):
        if isinstance(st, (ast.FunctionDef, ast.AsyncFunctionDef, ast.ClassDef)):
            bound.add(st.name)
        elif isinstance(st, (ast.Import, ast.ImportFrom)):
            bound |= {(al.asname or al.name).split(".")[0] for al in st.names}
    for x in ast.walk(tree):
        if isinstance(x, ast.Name) and isinstance(x.ctx, ast.Store):
            rebound.add(x.id)
        elif isinstance(x, ast.arg):
            rebound.add(x.arg)
    f = _Fold(bound - rebound)
    f.visit(tree)
    if f.n:
        ast.fix_missing_locations(tree)
    return f.n


def split_on_shared_predicates(tree):
    """a flag that is assigned once and then tested in two or more places (`wide = m < n; B = X if wide else Y; ...; return (a, b) if wide
    else (b, a)`) correlates those places.  The rest of the function after the first test is duplicated under one `if flag: ... else:
    ...` with every test of the flag folded, so that each branch is the straight-line code of one case -- the layout the same logic
    has when it is written as a single if/else."""
    n = 0
    for fn in [x for x in ast.walk(tree) if isinstance(x, (ast.FunctionDef, ast.AsyncFunctionDef))]:
        for _ in range(3):
            if not _split_one_predicate(fn):
                break
            n += 1
    return n


def _test_polarity(test, name):
    if isinstance(test, ast.Name) and test.id == name:
        return True
    if isinstance(test, ast.UnaryOp) and isinstance(test.op, ast.Not) and isinstance(test.operand, ast.Name) and test.operand.id == name:
        return False
    return None


def _split_one_predicate(fn):
    stores = {}
    for x in ast.walk(fn):
        if isinstance(x, ast.Name) and isinstance(x.ctx, ast.Store):
            stores[x.id] = stores.get(x.id, 0) + 1
        elif isinstance(x, ast.arg):
            stores[x.arg] = stores.get(x.arg, 0) + 2
        elif isinstance(x, ast.AugAssign) and isinstance(x.target, ast.Name):
            stores[x.target.id] = stores.get(x.target.id, 0) + 2
    for i, st in enumerate(fn.body):
        if not (isinstance(st, ast.Assign) and len(st.targets) == 1 and isinstance(st.targets[0], ast.Name) and stores.get(st.targets[0].id) == 1):
            continue
        p = st.targets[0].id
        rest = fn.body[i + 1:]
        tests = [x for s in rest for x in ast.walk(s) if isinstance(x, (ast.If, ast.IfExp)) and _test_polarity(x.test, p) is not None]
        if len(tests) < 2 or not any(isinstance(x, ast.IfExp) for x in tests):
            continue
        if any(isinstance(x, (ast.FunctionDef, ast.AsyncFunctionDef, ast.ClassDef, ast.Lambda, ast.Global, ast.Nonlocal, ast.Yield, ast.YieldFrom)) for s in rest for x in ast.walk(s)):
            continue
        first = next(j for j, s in enumerate(rest) if any(isinstance(x, (ast.If, ast.IfExp)) and _test_polarity(x.test, p) is not None for x in ast.walk(s)))
        tail = rest[first:]
        if sum(len(list(ast.walk(s))) for s in tail) > 1500:
            continue
        branches = []
        for value in (True, False):
            class F(ast.NodeTransformer):
                def visit_IfExp(self, node):
                    pol = _test_polarity(node.test, p)
                    if pol is None:
                        return self.generic_visit(node)
                    return self.visit(node.body if pol == value else node.orelse)

                def visit_If(self, node):
                    pol = _test_polarity(node.test, p)
                    if pol is None:
                        return self.generic_visit(node)
                    out = []
                    for s in (node.body if pol == value else node.orelse):
                        r = self.visit(s)
                        out += r if isinstance(r, list) else [r]
                    return out or [ast.copy_location(ast.Pass(), node)]
            blk = []
            for s in tail:
                r = F().visit(_copy(s))
                blk += r if isinstance(r, list) else [r]
                if isinstance(blk[-1], (ast.Return, ast.Raise)):
                    break  # what follows a folded early return belongs to the other case only
            branches.append(blk)
        new = ast.If(test=ast.Name(id=p, ctx=ast.Load()), body=branches[0], orelse=branches[1])
        ast.copy_location(new, tail[0])
        ast.copy_location(new.test, tail[0])
        fn.body[i + 1 + first:] = [new]
        ast.fix_missing_locations(fn)
        return True
    return False


def append_loops_to_comprehensions(tree):
    """`xs = []; for t in it: a = f(t); xs.append(g(a))` -> `xs = [g(f(t)) for t in it]` when the loop does nothing else: its body
    is only single assignments to names that live inside the loop and one unconditional append per list, the lists start empty in
    the same block and are not read in between or inside the loop.  (The iterable and the loop-local expressions may be duplicated:
    the analyses treat library expressions as pure.)"""
    n = 0
    for fn in [x for x in ast.walk(tree) if isinstance(x, (ast.FunctionDef, ast.AsyncFunctionDef))]:
        loads, stores = {}, {}
        for x in ast.walk(fn):
            if isinstance(x, ast.Name):
                (loads if isinstance(x.ctx, ast.Load) else stores).setdefault(x.id, []).append(x)
            elif isinstance(x, ast.arg):
                stores.setdefault(x.arg, []).extend([x, x])
        for node in ast.walk(fn):
            for f in ("body", "orelse", "finalbody"):
                blk = getattr(node, f, None)
                if not (isinstance(blk, list) and blk and isinstance(blk[0], ast.stmt)):
                    continue
                j = 0
                while j < len(blk):
                    new = _loop_as_comprehensions(blk, j, loads, stores)
                    if new is None:
                        j += 1
                        continue
                    inits, stmts = new
                    blk[j:j + 1] = stmts
                    for st in inits:
                        blk.remove(st)
                    n += 1
                    j = 0
    return n


def _collector_op(st):
    """('append', list name, element) / ('setitem', dict name, key, value) for `xs.append(e)` / `d[k] = v` statements"""
    if (isinstance(st, ast.Expr) and isinstance(st.value, ast.Call) and isinstance(st.value.func, ast.Attribute) and st.value.func.attr == "append"
            and isinstance(st.value.func.value, ast.Name) and len(st.value.args) == 1 and not st.value.keywords and not isinstance(st.value.args[0], ast.Starred)):
        return ("append", st.value.func.value.id, st.value.args[0])
    if (isinstance(st, ast.Assign) and len(st.targets) == 1 and isinstance(st.targets[0], ast.Subscript) and isinstance(st.targets[0].value, ast.Name)
            and not isinstance(st.targets[0].slice, (ast.Slice, ast.Tuple))):
        return ("setitem", st.targets[0].value.id, st.targets[0].slice, st.value)
    # an accumulator: `acc = acc + e` / `acc = e + acc` (and the same with *).  NOT `acc += e`: on an array that is a store into
    # the existing buffer (it keeps the buffer's dtype and is visible through every alias), which a re-binding is not
    if isinstance(st, ast.Assign) and len(st.targets) == 1 and isinstance(st.targets[0], ast.Name) and isinstance(st.value, ast.BinOp) and isinstance(st.value.op, (ast.Add, ast.Mult)):
        acc = st.targets[0].id
        for mine, other in ((st.value.left, st.value.right), (st.value.right, st.value.left)):
            if isinstance(mine, ast.Name) and mine.id == acc and not any(isinstance(x, ast.Name) and x.id == acc for x in ast.walk(other)):
                return ("fold+" if isinstance(st.value.op, ast.Add) else "fold*", acc, other)
    return None


def _loop_as_comprehensions(blk, j, loads, stores):
    """the comprehension assignments that replace the collector loop blk[j] (and the `xs = []` / `d = {}` statements they absorb), or None.
    A collector is filled by one unconditional statement, or inside one `if` of the loop body: in one branch (a filter) or in both
    (a conditional element)."""
    loop = blk[j]
    if not isinstance(loop, ast.For) or loop.orelse:
        return None
    tnames = [x.id for x in ast.walk(loop.target) if isinstance(x, ast.Name)]
    if not tnames or any(not isinstance(x, (ast.Name, ast.Tuple, ast.List)) for x in ast.walk(loop.target) if not isinstance(x, ast.expr_context)):
        return None
    if any(isinstance(x, (ast.Yield, ast.YieldFrom, ast.Await, ast.NamedExpr, ast.Lambda, ast.Break, ast.Continue, ast.Return)) for x in ast.walk(loop)):
        return None
    inside = {id(x) for x in ast.walk(loop)}
    mapping = {}
    collected = {}  # collector -> (kind, filter test or None, key, element)

    class S(ast.NodeTransformer):
        def visit_Name(self, node):
            if isinstance(node.ctx, ast.Load) and node.id in mapping:
                return _copy(mapping[node.id])
            return node

    def sub(e):
        return S().visit(_copy(e))

    def ops_of(stmts):
        out = {}
        for st in stmts:
            op = _collector_op(st)
            if op is None or op[1] in out or op[0].startswith("fold"):
                return None
            out[op[1]] = op
        return out

    for st in loop.body:
        op = _collector_op(st)
        if op is not None:
            if op[1] in collected:
                return None
            collected[op[1]] = (op[0], None, sub(op[2]) if op[0] == "setitem" else None, sub(op[-1]))
            if op[0].startswith("fold") and "sum" in stores:
                return None  # the builtin is shadowed in this function
        elif isinstance(st, ast.Assign) and len(st.targets) == 1 and isinstance(st.targets[0], (ast.Name, ast.Tuple)):
            tg = st.targets[0]
            names = [tg] if isinstance(tg, ast.Name) else list(tg.elts)
            if not all(isinstance(x, ast.Name) for x in names):
                return None
            val = sub(st.value)
            for x in names:
                # a loop-local: stored once in the function, never read outside the loop
                if x.id in mapping or x.id in tnames or len(stores.get(x.id, [])) != 1 or any(id(l) not in inside for l in loads.get(x.id, [])):
                    return None
                if any(isinstance(y, ast.Name) and y.id == x.id for y in ast.walk(st.value)):
                    return None
            for i, x in enumerate(names):
                mapping[x.id] = val if isinstance(tg, ast.Name) else ast.Subscript(value=_copy(val), slice=ast.Constant(value=i), ctx=ast.Load())
        elif isinstance(st, ast.If):
            a, b = ops_of(st.body), ops_of(st.orelse)
            if a is None or b is None or not (a or b):
                return None
            test = sub(st.test)
            for name in list(a) + [n for n in b if n not in a]:
                if name in collected:
                    return None
                oa, ob = a.get(name), b.get(name)
                kind = (oa or ob)[0]
                if oa is not None and ob is not None:
                    if oa[0] != ob[0] or (kind == "setitem" and ast.dump(oa[2]) != ast.dump(ob[2])):
                        return None
                    elt = ast.IfExp(test=_copy(test), body=sub(oa[-1]), orelse=sub(ob[-1]))
                    collected[name] = (kind, None, sub(oa[2]) if kind == "setitem" else None, elt)
                else:
                    o = oa or ob
                    flt = _copy(test) if oa is not None else ast.UnaryOp(op=ast.Not(), operand=_copy(test))
                    collected[name] = (kind, flt, sub(o[2]) if kind == "setitem" else None, sub(o[-1]))
        else:
            return None
    if not collected:
        return None
    if any(k[0].startswith("fold") for k in collected.values()):
        # an accumulator loop is turned into a fold only when that duplicates no loop-local computation (each temporary read once)
        for nm in mapping:
            if sum(1 for l in loads.get(nm, []) if id(l) in inside) > 1:
                return None
    for t in tnames:  # the loop variables do not escape
        if len(stores.get(t, [])) != len([x for x in ast.walk(loop.target) if isinstance(x, ast.Name) and x.id == t]) or any(id(l) not in inside for l in loads.get(t, [])):
            return None
    inits, out = [], []
    for name, (kind, flt, key, elt) in collected.items():
        init = None
        for k in (range(j - 1, -1, -1) if not kind.startswith("fold") else ()):
            s = blk[k]
            if isinstance(s, ast.Assign) and len(s.targets) == 1 and isinstance(s.targets[0], ast.Name) and s.targets[0].id == name:
                empty = (isinstance(s.value, ast.List) and not s.value.elts) if kind == "append" else (isinstance(s.value, ast.Dict) and not s.value.keys)
                init = s if empty else None
                break
            if any(isinstance(x, ast.Name) and x.id == name for x in ast.walk(s)):
                break
        if kind.startswith("fold"):
            # acc = e0; for t in it: acc = acc (+|*) f(t)   ->   acc = e0 (+|*) fold([f(t) for t in it])
            init = None
            for k in range(j - 1, -1, -1):
                s = blk[k]
                if isinstance(s, ast.Assign) and len(s.targets) == 1 and isinstance(s.targets[0], ast.Name) and s.targets[0].id == name:
                    init = s
                    break
                if any(isinstance(x, ast.Name) and x.id == name for x in ast.walk(s)):
                    break
            if init is None or len(stores.get(name, [])) != 2 or sum(1 for l in loads.get(name, []) if id(l) in inside) > 1:
                return None
            if any(isinstance(x, ast.Name) and x.id == name for x in ast.walk(elt)) or any(isinstance(x, ast.Name) and x.id == name for x in ast.walk(init.value)):
                return None
            gen = ast.comprehension(target=_copy(loop.target), iter=_copy(loop.iter), ifs=[], is_async=0)
            comp = ast.ListComp(elt=elt, generators=[gen])
            if kind == "fold+":
                folded = ast.Call(func=ast.Name(id="sum", ctx=ast.Load()), args=[comp], keywords=[])
                value = folded if (isinstance(init.value, ast.Constant) and init.value.value == 0 and not isinstance(init.value.value, bool)) else \
                    ast.BinOp(left=_copy(init.value), op=ast.Add(), right=folded)
            else:
                folded = ast.Call(func=ast.Attribute(value=ast.Name(id="_nf_math", ctx=ast.Load()), attr="prod", ctx=ast.Load()), args=[comp], keywords=[])
                value = folded if (isinstance(init.value, ast.Constant) and init.value.value == 1 and not isinstance(init.value.value, bool)) else \
                    ast.BinOp(left=_copy(init.value), op=ast.Mult(), right=folded)
            new = ast.Assign(targets=[ast.Name(id=name, ctx=ast.Store())], value=value)
            ast.copy_location(new, loop)
            ast.fix_missing_locations(new)
            inits.append(init)
            out.append(new)
            continue
        if init is None or len(stores.get(name, [])) != 1:
            return None
        # inside the loop the collector is only the receiver of its own fill statements
        n_recv = sum(1 for st in ast.walk(loop) if (_collector_op(st) or (None, None))[1] == name) if True else 0
        if sum(1 for l in loads.get(name, []) if id(l) in inside) != n_recv:
            return None
        if any(isinstance(x, ast.Name) and x.id == name for e in (elt, key, flt) if e is not None for x in ast.walk(e)):
            return None
        gen = ast.comprehension(target=_copy(loop.target), iter=_copy(loop.iter), ifs=[flt] if flt is not None else [], is_async=0)
        comp = ast.ListComp(elt=elt, generators=[gen]) if kind == "append" else ast.DictComp(key=key, value=elt, generators=[gen])
        new = ast.Assign(targets=[ast.Name(id=name, ctx=ast.Store())], value=comp)
        ast.copy_location(new, loop)
        ast.copy_location(comp, loop)
        ast.fix_missing_locations(new)
        inits.append(init)
        out.append(new)
    return inits, out


def fuse_comprehensions(tree):
    """`xs = [g(t) for t in it]; ys = [f(a, b) for a, b in xs if c(a)]` -> `ys = [f(g0, g1) for t in it if c(g0)]` when xs is assigned once to a
    single-generator list comprehension whose element matches the consumer's target pattern: the intermediate list disappears from
    the consumer (deforestation; the producer's element expression is duplicated, which is sound for the pure expressions analysed)"""
    n = 0
    for fn in [x for x in ast.walk(tree) if isinstance(x, (ast.FunctionDef, ast.AsyncFunctionDef))]:
        for _ in range(20):
            if not _fuse_one(fn):
                break
            n += 1
    return n


def _fuse_one(fn):
    stores, producers = {}, {}
    mutated = set()
    for x in ast.walk(fn):
        if isinstance(x, ast.Name) and isinstance(x.ctx, ast.Store):
            stores[x.id] = stores.get(x.id, 0) + 1
        elif isinstance(x, ast.arg):
            stores[x.arg] = stores.get(x.arg, 0) + 2
        elif isinstance(x, ast.AugAssign) and isinstance(x.target, ast.Name):
            stores[x.target.id] = stores.get(x.target.id, 0) + 2
        elif isinstance(x, ast.Call) and isinstance(x.func, ast.Attribute) and isinstance(x.func.value, ast.Name) and x.func.attr in (
                "append", "extend", "insert", "pop", "remove", "clear", "sort", "reverse"):
            mutated.add(x.func.value.id)
        elif isinstance(x, (ast.Assign, ast.Delete)):
            for t in x.targets:
                if isinstance(t, ast.Subscript) and isinstance(t.value, ast.Name):
                    mutated.add(t.value.id)
    for st in fn.body:
        if (isinstance(st, ast.Assign) and len(st.targets) == 1 and isinstance(st.targets[0], ast.Name) and isinstance(st.value, ast.ListComp)
                and len(st.value.generators) == 1 and not st.value.generators[0].is_async):
            x = st.targets[0].id
            if stores.get(x) == 1 and x not in mutated:
                producers[x] = st
    if not producers:
        return False
    for comp in [x for x in ast.walk(fn) if isinstance(x, (ast.ListComp, ast.GeneratorExp, ast.SetComp, ast.DictComp))]:
        if len(comp.generators) != 1:
            continue
        g = comp.generators[0]
        if not (isinstance(g.iter, ast.Name) and g.iter.id in producers) or producers[g.iter.id].value is comp:
            continue
        prod = producers[g.iter.id].value
        pg = prod.generators[0]
        if isinstance(g.target, ast.Name):
            binding = {g.target.id: prod.elt}
        elif isinstance(g.target, ast.Tuple) and isinstance(prod.elt, ast.Tuple) and len(g.target.elts) == len(prod.elt.elts) and all(isinstance(t, ast.Name) for t in g.target.elts):
            binding = {t.id: e for t, e in zip(g.target.elts, prod.elt.elts)}
        else:
            continue
        inner_names = {x.id for x in ast.walk(pg.target) if isinstance(x, ast.Name)}
        parts = ([comp.key, comp.value] if isinstance(comp, ast.DictComp) else [comp.elt]) + list(g.ifs)
        free = {x.id for e in parts for x in ast.walk(e) if isinstance(x, ast.Name)} - set(binding)
        if inner_names & free or any(isinstance(x, (ast.Lambda, ast.ListComp, ast.GeneratorExp, ast.SetComp, ast.DictComp)) for e in parts for x in ast.walk(e)):
            continue

        class S(ast.NodeTransformer):
            def visit_Name(self, node):
                if isinstance(node.ctx, ast.Load) and node.id in binding:
                    return _copy(binding[node.id])
                return node
        if isinstance(comp, ast.DictComp):
            comp.key, comp.value = S().visit(comp.key), S().visit(comp.value)
        else:
            comp.elt = S().visit(comp.elt)
        g.ifs = [_copy(t) for t in pg.ifs] + [S().visit(t) for t in g.ifs]
        g.target, g.iter = _copy(pg.target), _copy(pg.iter)
        ast.fix_missing_locations(fn)
        # a producer nothing reads any more is dead
        name = next(k for k, v in producers.items() if v.value is prod)
        if not any(isinstance(x, ast.Name) and x.id == name and isinstance(x.ctx, ast.Load) for x in ast.walk(fn)):
            fn.body.remove(producers[name])
        return True
    return False


# ------------------------------------------------------------------------------------------------
# Helper inlining: "extract function" is the most common behaviour-preserving refactoring, and rules that look at the body of a
# dispatch rule or of a product method would otherwise lose sight of the code.  Private module-level helpers (leading underscore,
# no decorators, no *args/**kwargs, straight-line body of assignments ending in one `return <expr>`) are inlined at their call
# sites inside the same module; their locals get fresh names and parameters are replaced by the argument expressions (the
# analyses treat library code as pure, so evaluating an argument expression twice does not matter).
_SIMPLE_STMTS = (ast.Assign, ast.AnnAssign, ast.AugAssign, ast.Expr, ast.Assert, ast.Pass)
_NO_INLINE_INSIDE = (ast.Lambda, ast.ListComp, ast.GeneratorExp, ast.SetComp, ast.DictComp)


_PROTOCOL_METHODS = {"_matmat", "_rmatmat", "_matvec", "_rmatvec"}


def _helper_ok(st, body, allow_super=False):
    if any(isinstance(x, (ast.AsyncFunctionDef, ast.ClassDef, ast.Yield, ast.YieldFrom, ast.Await, ast.NamedExpr, ast.Global, ast.Nonlocal))
           for s in body for x in ast.walk(s)):
        return False
    for s in body:
        for x in ast.walk(s):
            if isinstance(x, ast.Call):
                f = x.func
                via_super = isinstance(f, ast.Attribute) and isinstance(f.value, ast.Call) and isinstance(f.value.func, ast.Name) and f.value.func.id == "super"
                if (isinstance(f, ast.Name) and f.id == st.name) or (isinstance(f, ast.Attribute) and f.attr == st.name and not via_super):
                    return False  # recursive
                if isinstance(f, ast.Name) and f.id in ("super", "locals", "vars") and not (allow_super and f.id == "super" and not x.args):
                    return False
    return True


def _own_walk(node):
    """nodes of a statement that belong to the same function (nested defs / lambdas are not entered)"""
    if isinstance(node, (ast.FunctionDef, ast.AsyncFunctionDef, ast.Lambda, ast.ClassDef)):
        yield node
        return
    stack = [node]
    while stack:
        x = stack.pop()
        yield x
        for c in ast.iter_child_nodes(x):
            if isinstance(c, (ast.FunctionDef, ast.AsyncFunctionDef, ast.Lambda, ast.ClassDef)):
                continue
            stack.append(c)


def _helper_shape(body):
    """'straight' (simple statements then one return / a procedure), 'single-exit' (any statements, one return, at the end),
    'branching' (several exits: inlined in tail position only)"""
    is_proc = not any(isinstance(x, ast.Return) for s in body for x in _own_walk(s))
    if is_proc:
        return "straight" if all(isinstance(s, _SIMPLE_STMTS) for s in body) else None
    if isinstance(body[-1], ast.Return) and body[-1].value is not None and sum(isinstance(x, ast.Return) for s in body for x in _own_walk(s)) == 1:
        return "straight" if all(isinstance(s, _SIMPLE_STMTS) for s in body[:-1]) else "single-exit"
    return "branching"


def _inlinable_helpers(tree):
    """name -> (def, kind): private module-level functions (kind 'func') and private methods / static methods of the module's classes
    whose name is defined once in the module (no override: `self._name(..)` then means that definition) -- kinds 'method', 'static'"""
    out = {}
    defined = {}
    for st in tree.body:
        if isinstance(st, ast.FunctionDef):
            defined.setdefault(st.name, []).append(st)
        elif isinstance(st, ast.ClassDef):
            for m in st.body:
                if isinstance(m, ast.FunctionDef):
                    defined.setdefault(m.name, []).append(m)

    methods = out.setdefault("<methods>", {})  # (class name, method name) -> (def, kind): resolved per class at the call site

    def consider(st, kind, cls=None):
        private = st.name.startswith("_") and not st.name.startswith("__")
        if cls is not None:
            # methods: private ones, and every method of a private (internal) base class -- reached through `super().m(..)`
            internal_base = cls.name.startswith("_") and not cls.name.startswith("__")
            if not (private or internal_base) or st.name in _PROTOCOL_METHODS:
                return
        elif not private or len(defined.get(st.name, [])) != 1:
            return
        a = st.args
        if a.kwarg or a.posonlyargs:
            return
        body = [s for s in st.body if not (isinstance(s, ast.Expr) and isinstance(s.value, ast.Constant))]
        if not body or not _helper_ok(st, body, allow_super=cls is not None) or _helper_shape(body) is None:
            return
        if kind == "method" and not a.args:
            return
        if cls is not None:
            methods[(cls.name, st.name)] = (st, kind)
        else:
            out[st.name] = (st, kind, cls)

    def consider_flag_helper(st):
        """a public module-level function some parameter of which is only ever tested (`if flag:` / `x if flag else y`): calls that pass
        a literal for it are specialised (two functions merged into one parameterised function)"""
        if st.name in out or st.name.startswith("__") or len(defined.get(st.name, [])) != 1 or st.decorator_list:
            return
        a = st.args
        if a.kwarg or a.posonlyargs or a.vararg:
            return
        body = [s for s in st.body if not (isinstance(s, ast.Expr) and isinstance(s.value, ast.Constant))]
        if not body or len(body) > 25 or not _helper_ok(st, body) or _helper_shape(body) is None:
            return
        flags = set()
        for x in ast.walk(st):
            t = x.test if isinstance(x, (ast.If, ast.IfExp)) else None
            if isinstance(t, ast.UnaryOp) and isinstance(t.op, ast.Not):
                t = t.operand
            if isinstance(t, ast.Name):
                flags.add(t.id)
        params = {p.arg for p in a.args + a.kwonlyargs}
        stored = {x.id for x in ast.walk(st) if isinstance(x, ast.Name) and isinstance(x.ctx, ast.Store)}
        flags = (flags & params) - stored
        if flags:
            out[st.name] = (st, "flagfunc", flags)

    for st in tree.body:
        if isinstance(st, ast.FunctionDef) and not st.decorator_list:
            consider(st, "func")
            consider_flag_helper(st)
        elif isinstance(st, ast.ClassDef):
            for m in st.body:
                if isinstance(m, ast.FunctionDef):
                    decos = [ast.unparse(d) for d in m.decorator_list]
                    if not decos:
                        consider(m, "method", st)
                    elif decos == ["staticmethod"]:
                        consider(m, "static", st)
    return out


def _bind(fn, call, tag=0, drop_self=False):
    """(parameter -> argument expression, prefix statements), or None when the call cannot be bound statically.  One starred
    positional argument is bound when the helper has no defaults: it covers exactly the parameters nothing else fills, and is
    unpacked into fresh locals (`f(*e, c)` with `def f(a, b, c)` gives `_a, _b = e`).  A `*rest` parameter of the helper is bound to
    the tuple of the surplus positional arguments."""
    a = fn.args
    pos = [p.arg for p in a.args][1 if drop_self else 0:]
    params = pos + [p.arg for p in a.kwonlyargs]
    if any(k.arg is None for k in call.keywords):
        return None
    stars = [i for i, x in enumerate(call.args) if isinstance(x, ast.Starred)]
    pre = []
    args = list(call.args)
    if stars:
        if len(stars) > 1 or a.defaults or a.vararg:
            return None
        named = [k.arg for k in call.keywords if k.arg in pos]
        m = len(pos) - (len(args) - 1) - len(named)
        i = stars[0]
        covered = pos[i:i + m]
        if m < 1 or any(p in named for p in covered):
            return None
        fresh = [ast.Name(id=f"_inl{tag}_{p}", ctx=ast.Store()) for p in covered]
        pre.append(ast.Assign(targets=[ast.Tuple(elts=fresh, ctx=ast.Store())], value=args[i].value, lineno=call.lineno))
        args[i:i + 1] = [ast.Name(id=f.id, ctx=ast.Load()) for f in fresh]
    bound = {}
    if len(args) > len(pos):
        if a.vararg is None:
            return None
        bound[a.vararg.arg] = ast.Tuple(elts=list(args[len(pos):]), ctx=ast.Load())
        args = args[:len(pos)]
    elif a.vararg is not None:
        bound[a.vararg.arg] = ast.Tuple(elts=[], ctx=ast.Load())
    for p, v in zip(pos, args):
        bound[p] = v
    for k in call.keywords:
        if k.arg not in params or k.arg in bound:
            return None
        bound[k.arg] = k.value
    n_def = len(a.defaults)
    all_pos = [p.arg for p in a.args]
    defaults = dict(zip(all_pos[len(all_pos) - n_def:], a.defaults)) if n_def else {}
    defaults.update({p.arg: d for p, d in zip(a.kwonlyargs, a.kw_defaults) if d is not None})
    for p in params:
        if p not in bound:
            if p not in defaults:
                return None
            bound[p] = defaults[p]
    return bound, pre


def _scope_stores(body):
    """names bound in the scope these statements belong to: assignment / loop / with targets and the names of nested defs -- not the
    locals of nested functions, lambdas or comprehensions"""
    out = set()
    stack = list(body)
    while stack:
        x = stack.pop()
        if isinstance(x, (ast.FunctionDef, ast.AsyncFunctionDef, ast.ClassDef)):
            out.add(x.name)
            stack += list(x.decorator_list)
            if not isinstance(x, ast.ClassDef):
                stack += [d for d in x.args.defaults + x.args.kw_defaults if d is not None]
            continue
        if isinstance(x, ast.Lambda):
            continue
        if isinstance(x, (ast.ListComp, ast.SetComp, ast.DictComp, ast.GeneratorExp)):
            stack.append(x.generators[0].iter)
            continue
        if isinstance(x, ast.Name) and isinstance(x.ctx, ast.Store):
            out.add(x.id)
        stack += list(ast.iter_child_nodes(x))
    return out


class _Subst(ast.NodeTransformer):
    """names -> expressions / new names, respecting scopes: inside a nested function, lambda or comprehension the names that scope binds
    itself (parameters, assignment targets, loop variables) are its own and are left alone"""
    def __init__(self, mapping):
        self.mapping = mapping

    def visit_Name(self, node):
        if node.id in self.mapping:
            new = self.mapping[node.id]
            if isinstance(new, str):
                return ast.copy_location(ast.Name(id=new, ctx=node.ctx), node)
            if isinstance(node.ctx, ast.Load):
                return _copy(new)
        return node

    def _scoped(self, node, own):
        inner = {k: v for k, v in self.mapping.items() if k not in own}
        if len(inner) == len(self.mapping):
            return self.generic_visit(node)
        sub = _Subst(inner)
        return sub.generic_visit(node)

    @staticmethod
    def _fn_locals(node):
        a = node.args
        own = {x.arg for x in a.posonlyargs + a.args + a.kwonlyargs} | ({a.vararg.arg} if a.vararg else set()) | ({a.kwarg.arg} if a.kwarg else set())
        if isinstance(node, ast.Lambda):
            return own
        declared = set()
        stack = list(node.body)
        while stack:
            x = stack.pop()
            if isinstance(x, (ast.Global, ast.Nonlocal)):
                declared |= set(x.names)
                continue
            if isinstance(x, (ast.FunctionDef, ast.AsyncFunctionDef, ast.ClassDef)):
                own.add(x.name)
                continue
            if isinstance(x, ast.Lambda):
                continue
            if isinstance(x, ast.Name) and isinstance(x.ctx, (ast.Store, ast.Del)):
                own.add(x.id)
            if isinstance(x, (ast.ListComp, ast.SetComp, ast.DictComp, ast.GeneratorExp)):
                continue  # comprehension variables are the comprehension's
            stack += list(ast.iter_child_nodes(x))
        return own - declared

    def visit_FunctionDef(self, node):
        # decorators and defaults are evaluated in the enclosing scope
        node.decorator_list = [self.visit(d) for d in node.decorator_list]
        node.args.defaults = [self.visit(d) for d in node.args.defaults]
        node.args.kw_defaults = [self.visit(d) if d is not None else None for d in node.args.kw_defaults]
        if isinstance(self.mapping.get(node.name), str):
            node.name = self.mapping[node.name]
        own = self._fn_locals(node)
        inner = _Subst({k: v for k, v in self.mapping.items() if k not in own})
        node.body = [inner.visit(s_) for s_ in node.body]
        return node

    visit_AsyncFunctionDef = visit_FunctionDef

    def visit_Lambda(self, node):
        node.args.defaults = [self.visit(d) for d in node.args.defaults]
        own = self._fn_locals(node)
        node.body = _Subst({k: v for k, v in self.mapping.items() if k not in own}).visit(node.body)
        return node

    def _comp(self, node):
        own = {x.id for g in node.generators for x in ast.walk(g.target) if isinstance(x, ast.Name)}
        if not (own & set(self.mapping)):
            return self.generic_visit(node)
        # the first iterable is evaluated in the enclosing scope
        first = self.visit(node.generators[0].iter)
        inner = _Subst({k: v for k, v in self.mapping.items() if k not in own})
        node = inner.generic_visit(node)
        node.generators[0].iter = first
        return node

    visit_ListComp = visit_SetComp = visit_DictComp = visit_GeneratorExp = _comp


def _copy(node):
    import copy
    return copy.deepcopy(node)


def _returns_to_assignments(stmts, target):
    """a statement list in which every path ends in `return e` (if / else tree, `raise` allowed) rewritten so that every leaf assigns
    `target = e` instead; None when a return sits inside a loop / try / with or a path falls off the end"""
    def always_exits(blk):
        if not blk:
            return False
        last = blk[-1]
        if isinstance(last, ast.Match):
            c_last = last.cases[-1]
            return c_last.guard is None and isinstance(c_last.pattern, ast.MatchAs) and c_last.pattern.pattern is None and all(always_exits(c.body) for c in last.cases)
        return isinstance(last, (ast.Return, ast.Raise)) or (isinstance(last, ast.If) and always_exits(last.body) and always_exits(last.orelse))

    def has_return(node):
        return any(isinstance(x, ast.Return) for x in _own_walk(node))

    def conv(blk):
        out = []
        for i, st in enumerate(blk):
            if isinstance(st, ast.Return):
                if st.value is None:
                    return None
                out.append(ast.Assign(targets=[ast.Name(id=target, ctx=ast.Store())], value=st.value, lineno=getattr(st, "lineno", 1)))
                return out
            if isinstance(st, ast.Raise):
                out.append(st)
                return out
            if isinstance(st, ast.If) and has_return(st):
                rest = blk[i + 1:]
                if always_exits(st.body):
                    b, o = conv(st.body), conv(st.orelse + rest)
                elif always_exits(st.orelse):
                    b, o = conv(st.body + rest), conv(st.orelse)
                else:
                    return None
                if b is None or o is None:
                    return None
                out.append(ast.If(test=st.test, body=b or [ast.Pass()], orelse=o))
                return out
            if isinstance(st, ast.Match) and has_return(st):
                # every case ends in return / raise and the last one is irrefutable (`case _`): the match itself is the decision
                last = st.cases[-1]
                irrefutable = last.guard is None and isinstance(last.pattern, ast.MatchAs) and last.pattern.pattern is None
                if not irrefutable or not all(always_exits(c.body) for c in st.cases):
                    return None
                new_cases = []
                for c in st.cases:
                    b = conv(c.body)
                    if b is None:
                        return None
                    new_cases.append(ast.match_case(pattern=c.pattern, guard=c.guard, body=b or [ast.Pass()]))
                out.append(ast.Match(subject=st.subject, cases=new_cases))
                return out
            if has_return(st):
                return None
            out.append(st)
        return None  # fell off the end without a value

    return conv(list(stmts))


def inline_helpers(tree):
    """in place; returns the number of call sites inlined.  Helpers are private module-level functions and private (static) methods
    of the module's classes that no other class of the module re-defines; a call `name(..)` / `self._name(..)` is replaced by the
    helper's body with its parameters bound -- as statements before the calling statement (one exit at the end of the helper), in
    place of `return helper(..)` (any shape), or as one expression where statements cannot be placed (inside a comprehension, a
    conditional expression or a lambda; only helpers that reduce to one expression)."""
    helpers = _inlinable_helpers(tree)
    counter = [0]
    total = [0]
    # nested helper functions: a def inside a function (not re-bound, no nested scopes of its own, no default arguments that capture),
    # called by name inside that function or its other nested functions -- keyed by the id of the outermost function
    local_helpers = {}

    def collect_local(outer):
        table = {}
        names_stored = {}
        for x in ast.walk(outer):
            if isinstance(x, ast.Name) and isinstance(x.ctx, ast.Store):
                names_stored[x.id] = names_stored.get(x.id, 0) + 1
        defs_ = {}
        for x in ast.walk(outer):
            if isinstance(x, ast.FunctionDef) and x is not outer:
                defs_.setdefault(x.name, []).append(x)
        for nm, ds in defs_.items():
            if len(ds) != 1 or names_stored.get(nm) or ds[0].decorator_list:
                continue
            h = ds[0]
            a = h.args
            if a.kwarg or a.posonlyargs or a.vararg or a.defaults or a.kw_defaults:
                continue
            body = [s_ for s_ in h.body if not (isinstance(s_, ast.Expr) and isinstance(s_.value, ast.Constant))]
            if not body or not _helper_ok(h, body) or _helper_shape(body) not in ("straight", ):
                continue
            # only helpers that are CALLED (never passed around as a value: loop bodies, callbacks stay what they are)
            loads = [x for x in ast.walk(outer) if isinstance(x, ast.Name) and x.id == nm and isinstance(x.ctx, ast.Load)]
            called = [x for x in ast.walk(outer) if isinstance(x, ast.Call) and isinstance(x.func, ast.Name) and x.func.id == nm]
            if not called or len(loads) != len(called):
                continue
            table[nm] = h
        return table

    for st_ in tree.body:
        fns_ = [st_] if isinstance(st_, ast.FunctionDef) else ([m for m in st_.body if isinstance(m, ast.FunctionDef)] if isinstance(st_, ast.ClassDef) else [])
        for f_ in fns_:
            t_ = collect_local(f_)
            if t_:
                local_helpers[id(f_)] = t_
    bases = {c.name: [ast.unparse(b).split("[")[0].split(".")[-1] for b in c.bases] for c in tree.body if isinstance(c, ast.ClassDef)}
    all_methods = {(c.name, m.name) for c in tree.body if isinstance(c, ast.ClassDef) for m in c.body if isinstance(m, ast.FunctionDef)}

    def derives(cname, target):
        seen, work = set(), [cname]
        while work:
            c = work.pop()
            if c == target:
                return True
            if c in seen:
                continue
            seen.add(c)
            work += bases.get(c, [])
        return False

    def lookup(call, ctx):
        """ctx = (name of the function being processed, its class or None, the name of its `self`) -> (def, kind, self name) or None"""
        f = call.func
        if isinstance(f, ast.Name) and f.id in local_helpers.get(ctx[4] if len(ctx) > 4 else None, {}) and f.id != ctx[0]:
            h = local_helpers[ctx[4]][f.id]
            own = {a_.arg for a_ in h.args.args + h.args.kwonlyargs} | {x.id for x in ast.walk(h) if isinstance(x, ast.Name) and isinstance(x.ctx, ast.Store)}
            free = {x.id for x in ast.walk(h) if isinstance(x, ast.Name) and isinstance(x.ctx, ast.Load)} - own
            if not (free & (ctx[5] if len(ctx) > 5 else set())):  # a caller's local of the same name would capture the helper's free variable
                return h, "func", None
            return None
        if isinstance(f, ast.Name) and f.id in helpers and helpers[f.id][1] == "func" and f.id != ctx[0]:
            return helpers[f.id][0], "func", None
        if isinstance(f, ast.Name) and f.id in helpers and helpers[f.id][1] == "flagfunc" and f.id != ctx[0]:
            fn, _, flags = helpers[f.id]
            b = _bind(fn, call, 0)
            if b is not None and not b[1] and any(isinstance(b[0].get(fl), ast.Constant) and isinstance(b[0][fl].value, (bool, type(None))) for fl in flags):
                return fn, "func", None
            return None
        methods = helpers.get("<methods>", {})
        if isinstance(f, ast.Attribute) and f.attr != ctx[0] and isinstance(f.value, ast.Name) and ctx[1] is not None:
            recv = f.value.id
            start = ctx[1] if (ctx[2] is not None and recv == ctx[2]) else (recv if recv in bases else None)
            if start is None:
                return None
            # the definition `start`'s instances use: first class on its (module-local, single-inheritance) base chain that defines it,
            # provided no subclass of `start` in the module overrides it
            if any(derives(c_, start) and c_ != start and (c_, f.attr) in all_methods for c_ in bases):
                return None
            c_ = start
            seen_ = set()
            while c_ is not None and c_ not in seen_:
                seen_.add(c_)
                if (c_, f.attr) in all_methods:
                    hit = methods.get((c_, f.attr))
                    if hit is None:
                        return None
                    fn, kind = hit
                    if recv == ctx[2]:
                        return fn, kind, (ctx[2] if kind == "method" else None), c_
                    return (fn, kind, None, c_) if kind == "static" else None
                c_ = next((b for b in bases.get(c_, []) if b in bases), None)
            return None
        # super().m(..) where the direct base is an internal (underscore) class of this module
        if isinstance(f, ast.Attribute) and isinstance(f.value, ast.Call) and isinstance(f.value.func, ast.Name) and f.value.func.id == "super" and not f.value.args \
                and ctx[1] is not None and ctx[2] is not None and f.attr == ctx[0]:
            b = next((b for b in bases.get(ctx[1], []) if b in bases), None)
            c_ = b
            seen_ = set()
            while c_ is not None and c_ not in seen_:
                seen_.add(c_)
                if (c_, f.attr) in all_methods:
                    hit = methods.get((c_, f.attr))
                    if hit is None or hit[1] != "method":
                        return None
                    return hit[0], "method", ctx[2], c_
                c_ = next((x for x in bases.get(c_, []) if x in bases), None)
        return None

    def body_of(fn):
        # the helper's body as it is now (calls to other helpers inside it may have been expanded in the meantime)
        return [s_ for s_ in fn.body if not (isinstance(s_, ast.Expr) and isinstance(s_.value, ast.Constant))]

    def simple(e):
        return isinstance(e, (ast.Name, ast.Constant)) or (isinstance(e, ast.Attribute) and simple(e.value)) or \
            (isinstance(e, ast.Subscript) and simple(e.value) and isinstance(e.slice, (ast.Constant, ast.Name))) or \
            (isinstance(e, ast.Tuple) and all(simple(x) for x in e.elts)) or \
            (isinstance(e, ast.UnaryOp) and isinstance(e.op, ast.USub) and isinstance(e.operand, ast.Constant))

    def bind(fn, kind, selfname, call):
        res = _bind(fn, call, counter[0] + 1, drop_self=(kind == "method"))
        if res is None:
            return None
        bound, star_pre = res
        if kind == "method":
            bound = {fn.args.args[0].arg: ast.Name(id=selfname, ctx=ast.Load()), **bound}
        return bound, star_pre

    def mapping_for(bound, body, tag, call, pre):
        assigned = _scope_stores(body)
        mapping = {}
        for p_, e in bound.items():
            # an argument that is not a plain reference (a constructor call, an arithmetic expression) is evaluated once, into a
            # fresh local: substituting it at every use would build distinct objects; a parameter that the helper re-binds becomes
            # a fresh local initialised with the argument
            if p_ in assigned or not simple(e):
                fresh = f"_inl{tag}_{p_}"
                pre.append(ast.Assign(targets=[ast.Name(id=fresh, ctx=ast.Store())], value=_copy(e), lineno=call.lineno))
                mapping[p_] = fresh
            else:
                mapping[p_] = e
        for v in assigned - set(bound):
            mapping[v] = f"_inl{tag}_{v}"
        return mapping

    def instantiate(call, hit, direct_args=False):
        """-> (prefix statements, the helper's body with parameters bound and conditionals on constant arguments resolved) or None.
        direct_args: no prefix statements may be produced -- every argument is substituted where it is used (refused when a
        non-trivial argument is used more than once, or a parameter is re-bound)"""
        fn, kind, selfname = hit[:3]
        defining = hit[3] if len(hit) > 3 else None
        body = body_of(fn)
        if not body:
            return None
        res = bind(fn, kind, selfname, call)
        if res is None:
            return None
        bound, star_pre = res
        if defining is not None and selfname is not None:
            # zero-argument super() means "after the class this method is written in": spelled out, since the body moves to another class
            body = [_copy(s_) for s_ in body]
            for s_ in body:
                for x in ast.walk(s_):
                    if isinstance(x, ast.Call) and isinstance(x.func, ast.Name) and x.func.id == "super" and not x.args:
                        x.args = [ast.Name(id=defining, ctx=ast.Load()), ast.Name(id=fn.args.args[0].arg, ctx=ast.Load())]
        if direct_args:
            if star_pre:
                return None
            assigned = _scope_stores(body)
            uses = {}
            for s_ in body:
                for x in ast.walk(s_):
                    if isinstance(x, ast.Name) and isinstance(x.ctx, ast.Load):
                        uses[x.id] = uses.get(x.id, 0) + 1
            if any(p_ in assigned or (not simple(e) and uses.get(p_, 0) > 1) for p_, e in bound.items()):
                return None
        counter[0] += 1
        tag = counter[0]
        pre = list(star_pre)
        if direct_args:
            assigned = _scope_stores(body)
            mapping = dict(bound)
            for v in assigned:
                mapping[v] = f"_inl{tag}_{v}"
        else:
            mapping = mapping_for(bound, body, tag, call, pre)
        sub = _Subst(mapping)
        mod = ast.Module(body=[sub.visit(_copy(s_)) for s_ in body], type_ignores=[])
        # a helper called with a literal flag is specialised: `if left:` / `a if left else b` are resolved for this call
        lifted = True
        while lifted:
            f_ = _Fold()
            f_.visit(mod)
            lifted = f_.n > 0
        stmts = [s_ for s_ in mod.body if not isinstance(s_, ast.Pass)] or [ast.Pass()]
        # statements after an unconditional return cannot be reached (left behind by a resolved `if flag: return ..`)
        for j_, s_ in enumerate(stmts):
            if isinstance(s_, (ast.Return, ast.Raise)):
                stmts = stmts[:j_ + 1]
                break
        for s_ in pre + stmts:
            ast.copy_location(s_, call)
            ast.fix_missing_locations(s_)
        return pre, stmts

    def expand(call, hit, as_statement=False):
        """-> (prefix statements, expression) or None"""
        save = counter[0]
        res = instantiate(call, hit)
        if res is None:
            return None
        pre, stmts = res
        is_proc = not any(isinstance(x, ast.Return) for s_ in stmts for x in _own_walk(s_))
        shape = _helper_shape(stmts)
        if is_proc:
            if not as_statement or shape != "straight":
                counter[0] = save
                return None
            return pre + stmts, ast.Constant(value=None)
        if shape not in ("straight", "single-exit"):
            # several exits, each at the end of its path (a decision tree of if / else): `x = helper(..)` becomes the tree with `_ret = e`
            # at the leaves
            ret = f"_inl{counter[0]}_ret"
            tree_ = _returns_to_assignments(stmts, ret)
            if tree_ is None:
                counter[0] = save
                return None
            for s_ in tree_:
                ast.copy_location(s_, call)
                ast.fix_missing_locations(s_)
            return pre + tree_, ast.copy_location(ast.Name(id=ret, ctx=ast.Load()), call)
        return pre + stmts[:-1], stmts[-1].value

    def expand_expr(call, hit):
        """the helper as ONE expression (for a call inside a comprehension / lambda / conditional expression), or None: its body
        (specialised for constant arguments) must be single-name assignments followed by a return, every temporary and every
        non-trivial argument used at most once"""
        save = counter[0]
        res = instantiate(call, hit, direct_args=True)
        if res is None:
            return None
        _, stmts = res
        ok = isinstance(stmts[-1], ast.Return) and stmts[-1].value is not None and \
            all(isinstance(s_, ast.Assign) and len(s_.targets) == 1 and isinstance(s_.targets[0], ast.Name) for s_ in stmts[:-1])
        names = [s_.targets[0].id for s_ in stmts[:-1]] if ok else []
        if not ok or len(set(names)) != len(names):
            counter[0] = save
            return None
        uses = {}
        for s_ in stmts:
            for x in ast.walk(s_):
                if isinstance(x, ast.Name) and isinstance(x.ctx, ast.Load):
                    uses[x.id] = uses.get(x.id, 0) + 1
        env = {}
        for s_ in stmts[:-1]:
            v = _Subst(dict(env)).visit(_copy(s_.value))
            if not simple(v) and uses.get(s_.targets[0].id, 0) > 1:
                counter[0] = save
                return None
            env[s_.targets[0].id] = v
        expr = _Subst(dict(env)).visit(_copy(stmts[-1].value))
        ast.copy_location(expr, call)
        ast.fix_missing_locations(expr)
        return expr

    def expand_tail(call, hit):
        """statements that replace `return <call>`: the helper's body with its parameters bound, or None"""
        res = instantiate(call, hit)
        if res is None:
            return None
        pre, stmts = res

        def terminates(blk_):
            if not blk_:
                return False
            last = blk_[-1]
            return isinstance(last, (ast.Return, ast.Raise)) or (isinstance(last, ast.If) and terminates(last.body) and terminates(last.orelse))
        if not terminates(stmts):
            stmts = stmts + [ast.copy_location(ast.Return(value=ast.Constant(value=None)), call)]
            ast.fix_missing_locations(stmts[-1])
        return pre + stmts

    def process_block(blk, ctx):
        i = 0
        while i < len(blk):
            st = blk[i]
            if isinstance(st, ast.Return) and isinstance(st.value, ast.Call):
                hit = lookup(st.value, ctx)
                if hit is not None and _helper_shape(body_of(hit[0]) or [ast.Pass()]) in ("branching", "single-exit"):  # straight ones: expand()
                    new_ = expand_tail(st.value, hit)
                    if new_ is not None:
                        blk[i:i + 1] = new_
                        total[0] += 1
                        if total[0] > 800:
                            return
                        continue
            if isinstance(st, (ast.FunctionDef, ast.AsyncFunctionDef)):
                decos = [ast.unparse(d) for d in st.decorator_list]
                is_method_here = ctx[3] and "staticmethod" not in decos and "classmethod" not in decos and st.args.args
                selfname = st.args.args[0].arg if is_method_here else (ctx[2] if not ctx[3] else None)
                if not ctx[3] and ctx[2] is not None and any(a_.arg == ctx[2] for a_ in st.args.args + st.args.kwonlyargs):
                    selfname = None  # a nested function that shadows the enclosing method's self
                outer_id = ctx[4] if len(ctx) > 4 and ctx[4] is not None and not ctx[3] and ctx[0] is not None else id(st)
                nested_here = outer_id != id(st)
                shadow = set()
                if nested_here:
                    shadow = (ctx[5] if len(ctx) > 5 else set()) | {a_.arg for a_ in st.args.args + st.args.kwonlyargs + st.args.posonlyargs} | \
                        {x.id for x in ast.walk(st) if isinstance(x, ast.Name) and isinstance(x.ctx, ast.Store)}
                process_block(st.body, (st.name if ctx[3] or ctx[0] is None else ctx[0], ctx[1], selfname, False, outer_id, shadow))
                i += 1
                continue
            if isinstance(st, ast.ClassDef):
                process_block(st.body, (None, st.name, None, True, None, set()))
                i += 1
                continue
            # calls in the expressions that belong to this statement itself (not to nested blocks)
            own_exprs = []
            for f, v in ast.iter_fields(st):
                if f in ("body", "orelse", "finalbody", "handlers", "cases"):
                    continue
                if isinstance(v, ast.AST):
                    own_exprs.append(v)
                elif isinstance(v, list):
                    own_exprs += [x for x in v if isinstance(x, ast.AST)]
            target = target_hit = None
            inner = None  # a helper call where no statement can be placed
            for e in own_exprs:
                blocked = set()
                for x in ast.walk(e):
                    if isinstance(x, _NO_INLINE_INSIDE + (ast.IfExp, ast.BoolOp)):
                        blocked |= {id(y) for y in ast.walk(x) if y is not x}
                for x in ast.walk(e):
                    if isinstance(x, ast.Call):
                        hit = lookup(x, ctx)
                        if hit is None:
                            continue
                        if id(x) not in blocked:
                            target, target_hit = x, hit
                            break
                        if inner is None and id(x) not in getattr(process_block, "_failed", set()):
                            inner = (x, hit)
                if target is not None:
                    break
            loop_header = isinstance(st, (ast.For, ast.While, ast.With))
            if target is not None and not loop_header:
                is_stmt = isinstance(st, ast.Expr) and st.value is target
                res = expand(target, target_hit, as_statement=is_stmt)
                if res is not None and is_stmt:
                    blk[i:i + 1] = res[0]  # a call made for its effect: the helper's statements replace it
                    total[0] += 1
                    if total[0] > 800:
                        return
                    continue
                if res is not None:
                    pre, expr = res

                    class R(ast.NodeTransformer):
                        def visit_Call(self, node):
                            if node is target:
                                return expr
                            return self.generic_visit(node)
                    blk[i] = R().visit(st)
                    blk[i:i] = pre
                    total[0] += 1
                    if total[0] > 800:
                        return
                    continue  # look at the same statements again (nested helper calls)
            if (target is None or loop_header) and (inner is not None or (target is not None and loop_header)):
                x, hit = inner if inner is not None else (target, target_hit)
                expr = expand_expr(x, hit)
                if expr is not None:
                    class R2(ast.NodeTransformer):
                        def visit_Call(self, node):
                            if node is x:
                                return expr
                            return self.generic_visit(node)
                    blk[i] = R2().visit(st)
                    total[0] += 1
                    if total[0] > 800:
                        return
                    continue
                failed = getattr(process_block, "_failed", None)
                if failed is None:
                    failed = process_block._failed = set()
                failed.add(id(x))
                if inner is not None:
                    continue  # look for another inner call in the same statement
            for f in ("body", "orelse", "finalbody"):
                b = getattr(st, f, None)
                if isinstance(b, list) and b and isinstance(b[0], ast.stmt):
                    process_block(b, ctx)
            for h in getattr(st, "handlers", []) or []:
                process_block(h.body, ctx)
            for c in getattr(st, "cases", []) or []:
                process_block(c.body, ctx)
            i += 1

    process_block._failed = set()
    process_block(tree.body, (None, None, None, False, None, set()))
    ast.fix_missing_locations(tree)
    return total[0]




def renumber_lines(tree):
    """after the rewrites, line numbers no longer say in which order things happen (an inlined helper statement keeps the helper's
    lines).  Every node keeps its source line in `_src_line` (used for reporting) and `lineno` is re-assigned in pre-order, one line
    per statement, expressions on the line of their statement -- so that `a.lineno < b.lineno` means "a comes first" again."""
    counter = [0]

    def stmt(st):
        counter[0] += 1
        line = counter[0]
        for x in _own_nodes(st):
            if hasattr(x, "lineno"):
                if not hasattr(x, "_src_line"):
                    x._src_line = x.lineno
                x.lineno = line
                if hasattr(x, "end_lineno"):
                    x.end_lineno = line
        for f in ("body", "orelse", "finalbody"):
            blk = getattr(st, f, None)
            if isinstance(blk, list):
                for s_ in blk:
                    if isinstance(s_, ast.stmt):
                        stmt(s_)
        for h in getattr(st, "handlers", []) or []:
            counter[0] += 1
            if not hasattr(h, "_src_line"):
                h._src_line = getattr(h, "lineno", 0)
            h.lineno = counter[0]
            for s_ in h.body:
                stmt(s_)
        for c in getattr(st, "cases", []) or []:
            for x in ast.walk(c.pattern):
                if hasattr(x, "lineno") and not hasattr(x, "_src_line"):
                    x._src_line = x.lineno
            for s_ in c.body:
                stmt(s_)
        if hasattr(st, "end_lineno"):
            st.end_lineno = counter[0]

    def _own_nodes(st):
        """st and the expression nodes that belong to it (not to the statements nested in it)"""
        yield st
        stack = []
        for f, v in ast.iter_fields(st):
            if f in ("body", "orelse", "finalbody", "handlers", "cases") and isinstance(v, list) and v and isinstance(v[0], (ast.stmt, ast.ExceptHandler, ast.match_case)):
                continue
            if isinstance(v, ast.AST):
                stack.append(v)
            elif isinstance(v, list):
                stack += [x for x in v if isinstance(x, ast.AST)]
        while stack:
            x = stack.pop()
            yield x
            if isinstance(x, ast.Lambda) or not isinstance(x, ast.stmt):
                stack += list(ast.iter_child_nodes(x))

    for s_ in tree.body:
        stmt(s_)
