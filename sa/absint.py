"""Generic forward def-use evaluator shared by the provenance analyses (PROV: ORTHO/COLS,
ORDER, SIGN) — flow-insensitive over a function's assignments, interprocedural through
resolved cola callees with parameters bound to the caller's abstract arguments.

A domain subclasses AbsInt and overrides the hooks; abstract values are hashable; the
tuple constructor is ('tuple', (v0, v1, ...)); a join is ('join', frozenset(values)).
"""
import ast

from sa import dataflow as df


class AbsInt:
    MAX_DEPTH = 12
    AUG_KEEPS_VALUE = False
    # True: a bound parameter that the callee re-binds (`state = step(state)`, `rhs = rhs / norm`) takes the re-bound
    # value in program order, and parameters of an enclosing function seen from a nested one keep their base value
    ENV_REBINDING = False

    def __init__(self, idx):
        self.idx = idx
        self._fn_memo = {}
        self._consts = {}  # id(function node) -> {parameter: literal} for the call being evaluated
        self._stack = set()

    # ---------------------------------------------------------------- hooks
    def unknown(self, why=""):
        return ("unknown", why)

    def const(self, node):
        return ("const", repr(node.value))

    def attribute(self, base, attr, node, ctx):
        return self.unknown(f".{attr}")

    def subscript(self, base, node, ctx):
        return self.unknown("subscript")

    def binop(self, node, left, right, ctx):
        return self.unknown("binop")

    def unaryop(self, node, val, ctx):
        return val

    def call_xnp(self, name, node, args, kwargs, ctx):
        return self.unknown(f"xnp.{name}")

    def call_external(self, dotted, node, args, kwargs, ctx):
        return self.unknown(dotted)

    def call_class(self, ci, node, args, kwargs, ctx):
        return self.unknown(f"{ci.name}()")

    def call_method(self, recv, name, node, args, kwargs, ctx):
        return self.unknown(f".{name}()")

    def call_builtin(self, name, node, args, kwargs, ctx):
        return self.unknown(f"{name}()")

    def call_dispatch(self, fname, node, args, kwargs, ctx):
        return self.unknown(f"{fname}()")

    def call_unknown(self, node, ctx):
        return self.unknown(ast.unparse(node.func)[:30] + "()")

    def param(self, fi, name):
        return ("param", name)

    def self_attr(self, fi, attr, node):
        return ("self", attr)

    def other(self, node, ctx):
        return self.unknown(type(node).__name__)

    def cyclic(self, name):
        """value of a name met again while it is being evaluated (loop-carried definitions)"""
        return self.unknown(f"cyclic {name}")

    def follow_callee(self, callee):
        """whether to evaluate the callee's return interprocedurally"""
        return True

    # ---------------------------------------------------------------- values
    def join(self, vals):
        flat = set()
        for v in vals:
            if isinstance(v, tuple) and v and v[0] == "join":
                flat |= set(v[1])
            else:
                flat.add(v)
        if len(flat) == 1:
            return next(iter(flat))
        # merge tuples of equal length element-wise
        tups = [v for v in flat if isinstance(v, tuple) and v and v[0] == "tuple"]
        if tups and len(tups) == len(flat) and len({len(t[1]) for t in tups}) == 1:
            n = len(tups[0][1])
            return ("tuple", tuple(self.join([t[1][i] for t in tups]) for i in range(n)))
        return ("join", frozenset(flat))

    def alternatives(self, v):
        if isinstance(v, tuple) and v and v[0] == "join":
            return list(v[1])
        return [v]

    def index(self, v, i):
        outs = []
        for a in self.alternatives(v):
            if isinstance(a, tuple) and a and a[0] == "tuple":
                if isinstance(i, int) and -len(a[1]) <= i < len(a[1]):
                    outs.append(a[1][i])
                elif i == "*":
                    outs.append(self.join(a[1]))
                else:
                    outs.append(self.unknown("tuple index"))
            else:
                outs.append(self.element_of(a, i))
        return self.join(outs)

    def element_of(self, v, i):
        """element i of a non-tuple abstract value (e.g. iteration over a list)"""
        return self.unknown("element")

    # ---------------------------------------------------------------- evaluation
    class Ctx:
        def __init__(self, fi, env, depth=0):
            self.fi, self.env, self.depth = fi, env, depth
            self.busy = set()
            self.pinned = frozenset()
            self.memo = {}
            self.use = None  # the Name node being read (set by ev): bindings in an exclusive branch cannot reach it

    def eval_in(self, fi, expr, env=None, depth=0):
        return self.ev(expr, AbsInt.Ctx(fi, dict(env or {}), depth))

    def ev(self, e, ctx):
        if ctx.depth > self.MAX_DEPTH:
            return self.unknown("depth")
        if isinstance(e, ast.Constant):
            return self.const(e)
        if isinstance(e, ast.Name):
            ctx.use = e
            try:
                return self.name(e.id, ctx)
            finally:
                ctx.use = None
        if isinstance(e, ast.Attribute):
            if isinstance(e.value, ast.Name) and e.value.id == "self" and ctx.fi is not None and "self" in self._all_params(ctx.fi) and "self" not in ctx.env:
                return self.self_attr(ctx.fi, e.attr, e)
            return self.attribute(self.ev(e.value, ctx), e.attr, e, ctx)
        if isinstance(e, ast.Subscript):
            return self.subscript(self.ev(e.value, ctx), e, ctx)
        if isinstance(e, ast.Tuple):
            return ("tuple", tuple(self.ev(x, ctx) for x in e.elts))
        if isinstance(e, ast.BinOp):
            return self.binop(e, self.ev(e.left, ctx), self.ev(e.right, ctx), ctx)
        if isinstance(e, ast.UnaryOp):
            return self.unaryop(e, self.ev(e.operand, ctx), ctx)
        if isinstance(e, ast.IfExp):
            return self.join([self.ev(e.body, ctx), self.ev(e.orelse, ctx)])
        if isinstance(e, ast.BoolOp):
            return self.join([self.ev(v, ctx) for v in e.values])
        if isinstance(e, ast.NamedExpr):
            return self.ev(e.value, ctx)
        if isinstance(e, ast.Starred):
            return self.ev(e.value, ctx)
        if isinstance(e, ast.Call):
            return self.call(e, ctx)
        return self.other(e, ctx)

    def _all_params(self, fi):
        out = []
        f = fi
        while f is not None:
            a = f.node.args
            out += [x.arg for x in a.posonlyargs + a.args + a.kwonlyargs]
            f = f.parent
        return out

    def name(self, name, ctx):
        """ENV_REBINDING domains memoise the value of a name per activation (ctx.memo); a value computed while a
        loop-carried definition was cut (cyclic) is partial and is not memoised"""
        if not self.ENV_REBINDING:
            return self._name(name, ctx)
        key = (name, self._unreachable(name, ctx))
        if key in ctx.memo:
            return ctx.memo[key]
        before = getattr(self, "_n_cyclic", 0)
        v = self._name(name, ctx)
        if getattr(self, "_n_cyclic", 0) == before:
            ctx.memo[key] = v
        return v

    # ---------------------------------------------------------------- branch exclusion
    @staticmethod
    def _const_test(test, consts):
        """truth value of an `if` test under known literal parameters (`flag`, `not flag`, `flag is None`, `flag is not None`), or None"""
        if isinstance(test, ast.Name) and test.id in consts:
            return bool(consts[test.id])
        if isinstance(test, ast.UnaryOp) and isinstance(test.op, ast.Not):
            v = AbsInt._const_test(test.operand, consts)
            return None if v is None else not v
        if isinstance(test, ast.Compare) and len(test.ops) == 1 and isinstance(test.left, ast.Name) and test.left.id in consts \
                and isinstance(test.comparators[0], ast.Constant):
            c, k = consts[test.left.id], test.comparators[0].value
            if isinstance(test.ops[0], ast.Is):
                return c is k
            if isinstance(test.ops[0], ast.IsNot):
                return c is not k
            if isinstance(test.ops[0], ast.Eq) and isinstance(k, (bool, type(None))):
                return c == k
            if isinstance(test.ops[0], ast.NotEq) and isinstance(k, (bool, type(None))):
                return c != k
        return None

    def _dead_under(self, node, root, consts):
        """does `node` sit on the branch of an `if` that the literal parameters exclude (or after an always-exiting live branch)?"""
        if not consts:
            return False
        child, cur = node, getattr(node, "_parent", None)
        while cur is not None and child is not root:
            if isinstance(cur, ast.If):
                v = self._const_test(cur.test, consts)
                if v is not None:
                    if (any(child is x for x in cur.body) and not v) or (any(child is x for x in cur.orelse) and v):
                        return True
            if isinstance(cur, (ast.FunctionDef, ast.AsyncFunctionDef, ast.Lambda)) and cur is not root:
                return False
            # statements after an `if` whose live branch always exits are dead as well
            for fld in ("body", "orelse"):
                blk = getattr(cur, fld, None)
                if isinstance(blk, list) and any(child is x for x in blk):
                    for prev in blk[:next(k for k, x in enumerate(blk) if x is child)]:
                        if isinstance(prev, ast.If):
                            v = self._const_test(prev.test, consts)
                            if v is not None and self._terminates(prev.body if v else prev.orelse):
                                return True
            child, cur = cur, getattr(cur, "_parent", None)
        return False

    @staticmethod
    def _branch_path(node, root):
        """[(If node, 'body' | 'orelse')] from the function body down to node; None when a loop encloses one of those Ifs
        (a binding of one iteration reaches the other branch in the next)"""
        out = []
        child, cur = node, getattr(node, "_parent", None)
        while cur is not None and child is not root:
            if isinstance(cur, ast.If):
                if any(child is x for x in cur.body):
                    out.append((cur, "body"))
                elif any(child is x for x in cur.orelse):
                    out.append((cur, "orelse"))
            elif isinstance(cur, (ast.For, ast.AsyncFor, ast.While)) and out:
                return None
            elif isinstance(cur, (ast.FunctionDef, ast.AsyncFunctionDef, ast.Lambda)) and cur is not root:
                return None
            child, cur = cur, getattr(cur, "_parent", None)
        return out if child is root else None

    @staticmethod
    def _terminates(block):
        if not block:
            return False
        last = block[-1]
        if isinstance(last, (ast.Return, ast.Raise)):
            return True
        if isinstance(last, ast.If):
            return AbsInt._terminates(last.body) and AbsInt._terminates(last.orelse)
        return False

    def _unreachable(self, name, ctx):
        """ids of the binding statements of `name` in the current function that cannot reach the Name node being read: they sit in the
        other branch of an if that also encloses the read, or in a branch that always returns / raises and does not contain the read"""
        use = getattr(ctx, "use", None)
        f = ctx.fi
        if use is None or f is None:
            return frozenset()
        asg = df.assignments(f.node, into_nested=False).get(name, [])
        if not asg:
            return frozenset()
        consts = self._consts.get(id(f.node))
        out = set()
        if consts:
            out |= {id(st) for _v, _p, st in asg if self._dead_under(st, f.node, consts)}
        up = self._branch_path(use, f.node)
        if up is None:
            return frozenset(out)
        use_at = {id(n): b for n, b in up}
        for _v, _p, st in asg:
            sp = self._branch_path(st, f.node)
            if not sp:
                continue
            for n, b in sp:
                other = use_at.get(id(n))
                if other is not None and other != b:
                    out.add(id(st))
                elif other is None and self._terminates(getattr(n, b)) and getattr(st, "lineno", 0) < getattr(use, "lineno", 0):
                    out.add(id(st))
        return frozenset(out)

    # ---------------------------------------------------------------- private helper methods called on self (template-method refactorings)
    self_cls = None  # when set: the concrete class whose instance `self` is (most specific override wins)
    PROTOCOL_METHODS = {"_matmat", "_rmatmat", "_matvec", "_rmatvec"}

    def follow_self_method(self, name):
        return name.startswith("_") and not name.startswith("__") and name not in self.PROTOCOL_METHODS

    @staticmethod
    def _is_abstract(m):
        body = [st for st in m.node.body if not (isinstance(st, ast.Expr) and isinstance(st.value, ast.Constant))]
        return len(body) == 1 and isinstance(body[0], ast.Raise)

    def _self_impls(self, fi, name):
        top = fi
        while top.parent is not None:
            top = top.parent
        cls = top.cls or getattr(top, "enc_cls", None)
        if cls is None:
            return []
        idx = self.idx
        if self.self_cls is not None:
            m = idx.find_method(self.self_cls, name)
            return [m] if m is not None and not self._is_abstract(m) else []
        out = []
        m = idx.find_method(cls, name)
        if m is not None and not self._is_abstract(m):
            out.append(m)
        for c in idx.classes.values():
            if c is not cls and cls in idx.mro(c) and name in c.methods and not self._is_abstract(c.methods[name]) and c.methods[name] not in out:
                out.append(c.methods[name])
        return out

    MUTATORS = ("append", "extend", "insert", "add", "update", "setdefault", "pop", "remove", "clear", "sort", "reverse")

    def _container(self, name, value, f):
        """a local that is also the receiver of a mutating container method (`xs.append(..)`) does not have the value of its
        bindings; domains that model the mutation themselves override container_mutated"""
        cache = self.__dict__.setdefault("_mutated_cache", {})
        key = id(f.node)
        if key not in cache:
            cache[key] = {c.func.value.id for c in df.calls(f.node, into_nested=True)
                          if isinstance(c.func, ast.Attribute) and c.func.attr in self.MUTATORS and isinstance(c.func.value, ast.Name)}
        if name in cache[key]:
            return self.container_mutated(name, value)
        return value

    def container_mutated(self, name, value):
        return self.unknown(f"container {name} filled by method calls")

    def _outer_memo(self, f):
        """memo of an enclosing function's activation as seen from a nested function (keyed by the identity of its frame)"""
        frames = getattr(self, "frames", None)
        fr = frames.get(id(f.node)) if frames is not None else None
        store = self.__dict__.setdefault("_outer_memos", {})
        return store.setdefault((id(f.node), id(fr)), {})

    def _name(self, name, ctx):
        if name in ctx.env:
            if not self.ENV_REBINDING or name in ctx.pinned or ctx.fi is None or not df.assignments(ctx.fi.node, into_nested=False).get(name):
                return ctx.env[name]
        f = ctx.fi
        while f is not None:
            key = (id(f.node), name)
            asg = df.assignments(f.node, into_nested=False).get(name, [])
            if f is ctx.fi and asg:
                dead = self._unreachable(name, ctx)
                if dead:
                    asg = [x for x in asg if id(x[2]) not in dead]
            a = f.node.args
            params = [x.arg for x in a.posonlyargs + a.args + a.kwonlyargs]
            if self.ENV_REBINDING and any(isinstance(v, ast.AugAssign) for v, _p, _s in asg):
                # `x op= e` is the re-binding `x = x op e`
                conv = []
                for v, path, st in asg:
                    if isinstance(v, ast.AugAssign):
                        b = ast.BinOp(left=ast.Name(id=name, ctx=ast.Load()), op=v.op, right=v.value)
                        ast.copy_location(b, v)
                        ast.copy_location(b.left, v)
                        v = b
                    conv.append((v, path, st))
                asg = conv
            if self.ENV_REBINDING:
                bound = f is ctx.fi and name in ctx.env
                has_base = bound or name in params
                base_of = (lambda: ctx.env[name]) if bound else (lambda: self.param(f, name))
            else:
                has_base = name in params and f is ctx.fi
                base_of = lambda: self.param(f, name)  # noqa: E731
            if asg:
                if key in ctx.busy:
                    self._n_cyclic = getattr(self, "_n_cyclic", 0) + 1
                    return self.cyclic(name)
                ctx.busy.add(key)
                try:
                    vals = []
                    sub = AbsInt.Ctx(f, ctx.env if f is ctx.fi else {}, ctx.depth + 1)
                    sub.busy = ctx.busy
                    sub.pinned = ctx.pinned if f is ctx.fi else frozenset()
                    if self.ENV_REBINDING:
                        sub.memo = ctx.memo if f is ctx.fi else self._outer_memo(f)
                    # self-referential re-bindings (`V = lazify(V)`, `x = x[..., None]`) are evaluated on top of
                    # the join of the other bindings
                    selfref = [(v, path, st) for v, path, st in asg if not isinstance(v, ast.AugAssign) and name in df.names_in(v)]
                    if selfref and len(selfref) < len(asg) + (1 if has_base else 0):
                        plain = [x for x in asg if x not in selfref]
                        base_vals = []
                        for v, path, st in plain:
                            if isinstance(v, ast.AugAssign):
                                continue
                            val = self.ev(v, sub)
                            if path is not None:
                                for p in path:
                                    val = self.index(val, "*" if p == "iter" else p) if p != "with" else val
                            base_vals.append(val)
                        if has_base:
                            base_vals.append(base_of())
                        if base_vals:
                            cur = self.join(base_vals)
                            # straight-line re-bindings replace the value in program order; conditional ones join
                            for v, path, st in sorted(selfref, key=lambda x: (x[2].lineno, x[2].col_offset)):
                                env2 = dict(sub.env)
                                env2[name] = cur
                                sub2 = AbsInt.Ctx(f, env2, ctx.depth + 1)
                                sub2.busy = ctx.busy
                                sub2.pinned = sub.pinned | {name}
                                val = self.ev(v, sub2)
                                if path is not None:
                                    for p in path:
                                        val = self.index(val, "*" if p == "iter" else p) if p != "with" else val
                                top_level = getattr(st, "_parent", None) is f.node
                                cur = val if top_level else self.join([cur, val])
                            return self._container(name, cur, f)
                    for v, path, st in asg:
                        if isinstance(v, ast.AugAssign):
                            if self.AUG_KEEPS_VALUE:
                                continue  # `x op= e` does not change what this domain tracks about x
                            vals.append(self.binop(ast.BinOp(left=ast.Name(id=name, ctx=ast.Load()), op=v.op, right=v.value), self.unknown("aug"), self.ev(v.value, sub), sub))
                            continue
                        val = self.ev(v, sub)
                        if path is not None:
                            for p in path:
                                if p == "iter":
                                    val = self.index(val, "*")
                                elif p == "with":
                                    pass
                                else:
                                    val = self.index(val, p)
                        vals.append(val)
                    if has_base:
                        vals.append(base_of())
                    return self._container(name, self.join(vals), f)
                finally:
                    ctx.busy.discard(key)
            if name in params:
                return self.param(f, name)
            if name in f.nested:
                return ("function", f.nested[name].qual)
            f = f.parent
        r = self.idx.resolve_name(ctx.fi.module, name, ctx.fi) if ctx.fi is not None else None
        if r is None:
            return self.unknown(name)
        if r.kind == "funcs":
            return ("function", r.val[-1].qual)
        if r.kind == "class":
            return ("class", r.val.name)
        if r.kind == "value":
            return self.eval_module_value(r)
        if r.kind == "builtin":
            return ("builtin", r.val)
        return self.unknown(name)

    def eval_module_value(self, r):
        return self.unknown("module value")

    def call(self, c, ctx):
        f = c.func
        args = [self.ev(a, ctx) for a in c.args]
        kwargs = {k.arg: self.ev(k.value, ctx) for k in c.keywords if k.arg}
        x = df.is_xnp_call(c)
        if x is not None:
            return self.call_xnp(x, c, args, kwargs, ctx)
        r = self.idx.resolve_expr(ctx.fi.module, f, ctx.fi) if not (isinstance(f, ast.Name) and (f.id in ctx.env)) else None
        if isinstance(f, ast.Name) and f.id not in ctx.env:
            # a local variable holding a callable?
            loc = self.idx.resolve_name(ctx.fi.module, f.id, ctx.fi)
            if loc is not None and loc.kind == "local":
                r = None
        if r is not None:
            if r.kind == "external":
                return self.call_external(r.val, c, args, kwargs, ctx)
            if r.kind == "builtin":
                return self.call_builtin(r.val, c, args, kwargs, ctx)
            if r.kind == "class":
                return self.call_class(r.val, c, args, kwargs, ctx)
            if r.kind == "funcs":
                fis = r.val
                name = fis[-1].name
                if any(getattr(z, "rule", None) is not None for z in fis) and name in self.idx.rules:
                    return self.call_dispatch(name, c, args, kwargs, ctx)
                callee = fis[-1]
                if self.follow_callee(callee):
                    return self.eval_function(callee, c, args, kwargs, ctx)
                return self.call_unknown(c, ctx)
        if isinstance(f, ast.Attribute) and isinstance(f.value, ast.Name) and f.value.id == "self" and "self" not in ctx.env and self.follow_self_method(f.attr):
            impls = self._self_impls(ctx.fi, f.attr)
            if impls:
                def is_static(m):
                    return any(isinstance(d, ast.Name) and d.id == "staticmethod" for d in m.node.decorator_list)
                return self.join([self.eval_function(m, c, args, kwargs, ctx, skip_first=not is_static(m)) for m in impls])
        if isinstance(f, ast.Attribute):
            recv = self.ev(f.value, ctx)
            return self.call_method(recv, f.attr, c, args, kwargs, ctx)
        return self.call_unknown(c, ctx)

    def eval_function(self, callee, call, args, kwargs, ctx, skip_first=False):
        """abstract return value of `callee` with parameters bound to the given abstract args"""
        params = callee.params[1:] if skip_first else callee.params
        env = {}
        i = 0
        for a_node, a in zip(call.args, args):
            if isinstance(a_node, ast.Starred):
                continue
            if i < len(params):
                env[params[i]] = a
            i += 1
        for k, v in kwargs.items():
            env[k] = v
        for p, d in df.param_defaults(callee.node).items():
            if p not in env:
                env[p] = self.eval_in(callee, d, {}, ctx.depth + 1)
        # literal flags at the call site (`helper(.., hermitian=False)`, also through the callee's defaults): the callee is evaluated for
        # that value of the flag -- exits and bindings on the branch it excludes are not part of this call
        consts = {}
        i = 0
        for a_node in call.args:
            if isinstance(a_node, ast.Starred):
                break
            if i < len(params) and isinstance(a_node, ast.Constant) and isinstance(a_node.value, (bool, type(None))):
                consts[params[i]] = a_node.value
            i += 1
        for kw in call.keywords:
            if kw.arg is not None and isinstance(kw.value, ast.Constant) and isinstance(kw.value.value, (bool, type(None))):
                consts[kw.arg] = kw.value.value
        bound_here = {params[j] for j in range(min(i, len(params)))} | {kw.arg for kw in call.keywords if kw.arg}
        for p, d in df.param_defaults(callee.node).items():
            if p not in bound_here and isinstance(d, ast.Constant) and isinstance(d.value, (bool, type(None))):
                consts[p] = d.value
        stored = {n.id for n in df.body_nodes(callee.node, into_nested=False) if isinstance(n, ast.Name) and isinstance(n.ctx, ast.Store)}
        consts = {p: v for p, v in consts.items() if p not in stored}
        key = (id(callee.node), tuple(sorted((k, repr(v)) for k, v in env.items())), tuple(sorted((k, repr(v)) for k, v in consts.items())))
        if key in self._fn_memo:
            return self._fn_memo[key]
        if key in self._stack:
            return self.unknown(f"recursive {callee.short}")
        self._stack.add(key)
        saved = self._consts.get(id(callee.node))
        self._consts[id(callee.node)] = consts
        try:
            rets = [r for r in df.returns(callee.node) if r.value is not None]
            live = [r.value for r in rets if not self._dead_under(getattr(r, "_origin", r), callee.node, consts)]
            if not live:
                out = self.unknown("no return")
            else:
                out = self.join([self.eval_in(callee, r, env, ctx.depth + 1) for r in live])
        finally:
            self._stack.discard(key)
            if saved is None:
                self._consts.pop(id(callee.node), None)
            else:
                self._consts[id(callee.node)] = saved
        self._fn_memo[key] = out
        return out
