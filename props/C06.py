"""C06 — inv / solve on every dispatch path (DESIGN.md section 4, C06) with TERM + decision tables.

* every inv / pinv rule returns a term equal to inv(A) under the rule's cond, its operand kind's
  defining equation and the factorisation hypotheses (A = L·H(L), A = P·L·U);
* recursive calls forward the algorithm argument; solve forwards alg and multiplies on the right side;
* the lazy iterative inverse calls the algorithm object with (A, X);
* Auto: exhaustive decision, PSD-only algorithms chosen only where the guard implies PSD.
"""
import ast

from sa import dataflow as df
from sa.autorule import check_auto
from sa.resolver import Resolver
from sa.term import H, I, INV, MUL, SCAL, T, VAR, TermEval, alternatives, equal, expand, has_opaque, norm, opaque_text, show, sym
from sa.termutil import guard_hyps, kind_def

ITERATIVE = {"CG", "GMRES"}


def gram_range(idx, rep, rule, construct, te):
    """normal-equation pseudo-inverse on an iterative solver: the solver is applied to a Gram matrix G, and the vector it is applied
    to must lie in range(G).  inv(A^H A) A^H b always does (range(A^H) = range(A^H A)); A^H inv(A A^H) b needs b in range(A), i.e.
    full row rank, so that form is admissible only on a branch that excludes tall operators (rows > columns)."""
    fi = rule.func
    a = rule.params[0][0]
    A = sym(a)
    inner, outer = norm(MUL(H(A), A)), norm(MUL(A, H(A)))
    solver = [c for c in df.calls(fi.node) if nospace(c.func).endswith("IterativeOperatorWInfo") and c.args]
    if not solver:
        rep.undecided("gram-range", construct, "no iterative inverse of a Gram matrix found")
        return

    def rows_lt_cols(t, p, pol):
        """value of the test (normalised t with polarity p) on a strictly wide (pol=True) / strictly tall (pol=False) operator; None when
        it is not a rows-vs-columns comparison"""
        t = df.resolve_value(fi.node, t)
        if isinstance(t, ast.UnaryOp) and isinstance(t.op, ast.Not):
            t, p = t.operand, not p
            t = df.resolve_value(fi.node, t)
        if isinstance(t, ast.Compare) and len(t.ops) == 1 and ".shape" in nospace(t):
            l, r = nospace(t.left).replace("[-2]", "[0]").replace("[-1]", "[1]"), nospace(t.comparators[0]).replace("[-2]", "[0]").replace("[-1]", "[1]")
            op = t.ops[0]
            kind = None
            if l == f"{a}.shape[0]" and r == f"{a}.shape[1]":
                kind = {ast.Lt: "lt", ast.LtE: "le", ast.Gt: "gt", ast.GtE: "ge"}.get(type(op))
            elif l == f"{a}.shape[1]" and r == f"{a}.shape[0]":
                kind = {ast.Lt: "gt", ast.LtE: "ge", ast.Gt: "lt", ast.GtE: "le"}.get(type(op))
            if kind is not None:
                val = {"lt": pol, "le": pol, "gt": not pol, "ge": not pol}[kind]
                return val if p else not val
        return None

    def specialise(e, pol):
        """e with every conditional expression on the rows-vs-columns test replaced by the branch taken on that shape"""
        e = df.resolve_value(fi.node, e)
        if isinstance(e, ast.IfExp):
            t, p = df.normalise_test(df.resolve_value(fi.node, e.test))
            val = rows_lt_cols(t, p, pol)
            if val is None:
                return None
            return specialise(e.body if val else e.orelse, pol)
        return e

    for shape_name, pol in (("wide (rows < columns)", True), ("tall (rows > columns)", False)):
        tag = f"{construct}:{'wide' if pol else 'tall'}"
        # the solver calls that run on an operator of this shape (the index's normal form lays a shape flag out as if/else branches)
        live = [c for c in solver if not any(rows_lt_cols(t, p, pol) is False for t, p in df.branch_conditions(c, fi.node))]
        if not live:
            rep.undecided("gram-range", tag, f"{shape_name}: no iterative solve is reached")
            continue
        verdicts = []
        for c in live:
            g = specialise(c.args[0], pol)
            loc = [idx.loc(fi.module, c)]
            if g is None:
                verdicts.append((None, "Gram matrix chosen by a condition that is not a rows/columns comparison", loc, ""))
                continue
            gt = norm(te.eval_in(fi, g))
            if gt == inner:
                verdicts.append((True, f"{shape_name}: the solver runs on H({a})·{a}; the vector H({a}) b it is applied to lies in its range for every {a}", loc, ""))
            elif gt == outer:
                verdicts.append((True if pol else False, f"{shape_name}: the solver runs on {a}·H({a})" + ("; b lies in its range when the rows are independent" if pol else
                                 f", which is singular for a tall {a}; the right-hand side b is in general not in range({a}), so the iterative solve diverges instead of returning the least-squares solution"),
                                 loc, "" if pol else "outer-gram"))
            else:
                verdicts.append((None, f"{shape_name}: the solver runs on {show(gt)}", loc, ""))
        bad = next((v for v in verdicts if v[0] is False), None) or next((v for v in verdicts if v[0] is None), None) or verdicts[0]
        rep.decide(bad[0], "gram-range", tag, bad[1], detail=bad[3], locs=bad[2])


def nospace(n):
    return ast.unparse(n).replace(" ", "")


def check_inverse_rules(idx, rep, res, fname, pseudo=False):
    rules = res.rules_of(fname)
    from sa.autorule import arity_obligations
    arity_obligations(idx, rep, rules)
    if not rules:
        rep.missing_anchor(f"dispatched function {fname}")
        return
    for rule in rules:
        fi = rule.func
        a = rule.params[0][0]
        algp = rule.params[1][0] if len(rule.params) > 1 else None
        kinds = sorted(rule.types[0])
        algs = sorted(rule.types[1]) if len(rule.params) > 1 else []
        construct = rule.role
        if algs == ["Auto"]:
            continue  # decision table below
        te = TermEval(idx)
        defs = {}
        kd = kind_def(idx, kinds[0], a) if len(kinds) == 1 else None
        if kd is not None:
            defs[sym(a)] = kd
        rets = [r for r in df.returns(fi.node) if r.value is not None]
        for r in rets:
            hyp = set(guard_hyps(idx, fi, r))
            t = te.eval_in(fi, r.value)
            d2 = dict(defs)
            nt = norm(t)
            # factorisation hypotheses
            if any(x[0] == "chol" for x in walk_terms(nt)):
                L = ("chol", sym(a))
                d2[sym(a)] = MUL(L, H(L))
            if any(x[0] == "plu" for x in walk_terms(nt)):
                d2[sym(a)] = MUL(("plu", sym(a), 0), ("plu", sym(a), 1), ("plu", sym(a), 2))
            loc = idx.loc(fi.module, r)
            if any(x[0] == "iter" for x in alternatives(nt)):
                ok = all(x[0] == "iter" and x[1] == sym(a) and x[2] == sym(algp) for x in alternatives(nt))
                rep.decide(ok, "inverse-rule", construct, f"returns the lazy iterative inverse of ({show(nt[1]) if nt[0] == 'iter' else '?'}, {show(nt[2]) if nt[0] == 'iter' else '?'})"
                           + ("" if ok else f": expected ({a}, {algp})"), detail="" if ok else "lazy-args", locs=[loc])
                continue
            if pseudo and any(x[0] == "pinv" for x in alternatives(nt)):
                ok = all(x == ("pinv", sym(a)) for x in alternatives(nt))
                rep.decide(ok, "inverse-rule", construct, "returns the least-squares operator of A" if ok else f"least-squares operator of {show(nt)}", detail="" if ok else "lstsq", locs=[loc])
                continue
            if pseudo and "CG" in algs:
                rep.note(f"{construct}: regularised normal equations on purpose ((inv(A^H A) + eps I) A^H); no exact-algebra obligation")
                gram_range(idx, rep, rule, construct, te)
                continue
            # pinv rules: the Moore-Penrose inverse of the operand's defining term (it is the inverse on the invertible payload kinds)
            want = ("pinv", sym(a)) if pseudo else INV(sym(a))
            ok = equal(t, want, frozenset(hyp), d2)
            if ok is False and kd is None and len(kinds) == 1 and kinds[0] not in ("LinearOperator", ) and idx.has_cls(kinds[0]) and sym(a) not in d2 and f"'{a}." in repr(nt):
                ok = None  # built from payload attributes of a kind whose definition is outside the term grammar
            hy = ", ".join(sorted(f"{h[0]}({show(h[1])})" for h in hyp))
            rep.decide(ok, "inverse-rule", construct, f"returns {show(norm(expand(t, d2), frozenset(hyp)))}; required {'pinv' if pseudo else 'inv'}({show(norm(expand(sym(a), d2)))}) = {show(norm(expand(want, d2), frozenset(hyp)))}"
                       + (f" under {hy}" if hy else "") + (f" [outside the grammar: {opaque_text(norm(t))}]" if ok is None else ""),
                       detail="" if ok else "meaning", locs=[loc])
        # recursive calls forward the algorithm
        if algp is not None:
            rec = [c for c in df.calls(fi.node) if isinstance(c.func, ast.Name) and c.func.id == fname]
            structural = len(kinds) == 1 and kinds[0] in ("Product", "Kronecker", "BlockDiag")
            if structural and rec:
                ok = all(len(c.args) > 1 and isinstance(c.args[1], ast.Name) and c.args[1].id == algp or any(k.arg == algp and ast.unparse(k.value) == algp for k in c.keywords) for c in rec)
                rep.decide(ok, "alg-forwarded", construct, f"{len(rec)} recursive {fname} call(s) " + ("pass the caller's algorithm on" if ok else "drop or replace the algorithm argument"),
                           detail="" if ok else "dropped", locs=[rule.loc])


def walk_terms(t):
    if isinstance(t, tuple):
        yield t
        for x in t[1:]:
            if isinstance(x, tuple):
                yield from walk_terms(x)
                for y in x:
                    if isinstance(y, tuple):
                        yield from walk_terms(y)
    elif isinstance(t, frozenset):
        for x in t:
            yield from walk_terms(x)


def run(idx, rep, tier):
    core = frozenset(idx.core_modules())
    res = Resolver(idx, core)
    check_inverse_rules(idx, rep, res, "inv")
    check_inverse_rules(idx, rep, res, "pinv", pseudo=True)
    check_auto(idx, res, rep, "inv", 1)
    check_auto(idx, res, rep, "pinv", 1)
    # ---- solve
    solves = [f for f in idx.funcs_named("solve") if f.module.name in core]
    if not solves:
        rep.missing_anchor("solve")
    else:
        f = solves[-1]
        te = TermEval(idx)
        rets = [r for r in df.returns(f.node) if r.value is not None]
        a, b = f.params[0], f.params[1]
        t = te.eval_in(f, rets[0].value) if rets else ("opaque", "no return")
        ok = equal(t, MUL(INV(sym(a)), sym(b)))
        rep.decide(ok, "solve", "solve", f"returns {show(norm(t))}; required inv({a})·{b}", detail="" if ok else "meaning", locs=[idx.loc(f.module, f.node)])
        calls = [c for c in df.calls(f.node) if isinstance(c.func, ast.Name) and c.func.id == "inv"]
        algp = f.params[2] if len(f.params) > 2 else None
        fw = bool(calls) and all((len(c.args) > 1 and ast.unparse(c.args[1]) == algp) or any(k.arg in ("alg", algp) and ast.unparse(k.value) == algp for k in c.keywords) for c in calls)
        rep.decide(fw, "alg-forwarded", "solve", "solve passes its algorithm argument to inv" if fw else "solve does not pass its algorithm argument to inv", detail="" if fw else "dropped",
                   locs=[idx.loc(f.module, f.node)])
    # ---- lazy iterative inverse
    if idx.has_cls("IterativeOperatorWInfo"):
        ci = idx.cls("IterativeOperatorWInfo")
        mm = ci.methods.get("_matmat")
        ok, why = None, "no call of self.alg found"
        if mm is not None:
            x = mm.params[1]
            for c in df.calls(mm.node):
                if ast.unparse(c.func) == "self.alg":
                    args = [ast.unparse(z) for z in c.args]
                    ok = args == ["self.A", x]
                    why = f"the algorithm object is called with ({', '.join(args)})" + ("" if ok else f"; expected (self.A, {x})")
            rets = df.returns(mm.node)
            # the returned value is the first component of the algorithm's result
            if ok and rets:
                asg = df.assignments(mm.node)
                rv = rets[0].value
                if isinstance(rv, ast.Name):
                    src = asg.get(rv.id, [])
                    if not any(p == (0, ) and isinstance(v, ast.Call) and ast.unparse(v.func) == "self.alg" for v, p, st in src):
                        ok, why = False, f"_matmat returns `{rv.id}`, which is not the solution component of the algorithm's result"
        rep.decide(ok, "lazy-inverse", "IterativeOperatorWInfo._matmat", why, detail="" if ok else "args", locs=[idx.loc(ci.module, ci.node)])
        init = ci.methods.get("__init__")
        if init is not None:
            stores = {t.attr: ast.unparse(st.value) for st in df.body_nodes(init.node) if isinstance(st, ast.Assign) for t in st.targets if isinstance(t, ast.Attribute)}
            ok = stores.get("A") == init.params[1] and stores.get("alg") == init.params[2]
            rep.decide(ok, "lazy-inverse", "IterativeOperatorWInfo.__init__", f"stores A={stores.get('A')}, alg={stores.get('alg')}", detail="" if ok else "fields", locs=[idx.loc(ci.module, init.node)])
    else:
        rep.missing_anchor("IterativeOperatorWInfo")
    # ---- TriangularInv keeps the operand's flag (the flag/transposition pairing itself is C02)
    if idx.has_cls("TriangularInv"):
        init = idx.cls("TriangularInv").methods.get("__init__")
        p = init.params[1]
        stores = {t.attr: ast.unparse(st.value) for st in df.body_nodes(init.node) if isinstance(st, ast.Assign) for t in st.targets if isinstance(t, ast.Attribute)}
        ok = stores.get("lower") == f"{p}.lower" and stores.get("A", "").startswith(f"{p}.")
        rep.decide(ok, "triangular-inverse", "TriangularInv.__init__", f"stores A={stores.get('A')}, lower={stores.get('lower')}", detail="" if ok else "flag", locs=[idx.loc(init.module, init.node)])
        mm = idx.cls("TriangularInv").methods.get("_matmat")
        te = TermEval(idx)
        rets = df.returns(mm.node)
        t = te.eval_in(mm, rets[0].value)
        ok = equal(t, MUL(INV(sym("self.A")), sym(mm.params[1])))
        rep.decide(ok, "triangular-inverse", "TriangularInv._matmat", f"evaluates to {show(norm(t))}", detail="" if ok else "meaning", locs=[idx.loc(mm.module, mm.node)])
    # ---- least-squares operator shape
    if idx.has_cls("LSTSQSolve"):
        init = idx.cls("LSTSQSolve").methods.get("__init__")
        p = init.params[1]
        sup = [c for c in df.calls(init.node) if isinstance(c.func, ast.Attribute) and c.func.attr == "__init__"]
        sh = ast.unparse(sup[0].args[1]).replace(" ", "").replace("[-1]", "[1]").replace("[-2]", "[0]") if sup and len(sup[0].args) > 1 else ""
        ok = sh == f"({p}.shape[1],{p}.shape[0])"
        rep.decide(ok, "inverse-rule", "LSTSQSolve.__init__:shape", f"pseudo-inverse operator has shape {sh}" + ("" if ok else " (must be (columns, rows) of A)"), detail="" if ok else "shape",
                   locs=[idx.loc(init.module, init.node)])
    # ---- HOMOG on the CG routine: "the requested tolerance" is relative to the right-hand side on the iterative path
    from props.C12 import find_routine
    from sa import loop as lp
    from sa.homog import solver_scale_obligations
    from sa.krylov import closure
    routine, _fns = find_routine(idx, rep, "CG")
    if routine is not None:
        loops = lp.find_loops(idx, routine)
        cond = loops[0].cond if loops else None
        cond_fns = closure(idx, cond, same_module=True) if cond is not None and not isinstance(cond, ast.Lambda) else []
        solver_scale_obligations(idx, rep, routine, cond_fns, "relative-tolerance", "cg", cap_param="-")
    rep.floor("relative-tolerance", 2)
    rep.floor("inverse-rule", 17)
    rep.floor("alg-forwarded", 4)
    rep.floor("auto-rule", 4)
    rep.floor("lazy-inverse", 2)
    rep.explanation = ("TERM: each inv/pinv rule body is evaluated to a term and compared with inv(A) after substituting the operand kind's defining equation "
                       "(A = Π Mᵢ, ⊗ Mᵢ, bdiag(Mᵢ), c·I, diag(d), perm(p), I) and the factorisation hypotheses A = L·H(L), A = P·L·U; Auto rules are tabulated over "
                       "all truth assignments of their atomic conditions.")
    rep.assumptions += ["residual sizes, tolerances and conditioning are not decided", "dispatch of every (kind, algorithm) pair is C04; no densification is C19"]
